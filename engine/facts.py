"""Fact extraction orchestration and lazy loading of exported MIR facts.

The deciding step of every check reads /repo's *current* working tree: the source hash of
the tree is recomputed on every invocation and the facts are re-extracted (cargo +nightly
check with the lumina-facts driver as RUSTC_WORKSPACE_WRAPPER) whenever it differs from the
hash the cached facts were produced from.
"""
import fcntl
import hashlib
import json
import os
import shutil
import subprocess
import sys
import time

VERIF = os.path.dirname(os.path.dirname(os.path.abspath(__file__)))
REPO = os.environ.get("LUMINA_REPO", "/repo")
CACHE = os.environ.get("LUMINA_VERIF_CACHE", os.path.join(VERIF, ".cache"))
DRIVER = os.path.join(VERIF, "driver", "target", "release", "lumina-facts")
CRATES = ["celestia_types", "lumina_node", "celestia_grpc", "lumina_utils", "celestia_proto"]
PACKAGES = ["celestia-types", "lumina-node", "celestia-grpc", "lumina-utils"]


class BuildError(Exception):
    pass


def _sysroot():
    return subprocess.check_output(["rustc", "+nightly", "--print", "sysroot"], text=True).strip()


def source_hash(repo=REPO):
    """SHA-256 over every tracked / untracked-not-ignored file that can influence the build."""
    out = subprocess.check_output(
        ["git", "-C", repo, "ls-files", "-co", "--exclude-standard", "-z"], text=False
    )
    h = hashlib.sha256()
    names = sorted(n for n in out.split(b"\0") if n)
    for n in names:
        s = n.decode("utf-8", "replace")
        if not (s.endswith((".rs", ".toml", ".lock", ".proto", ".json")) or "/build" in s):
            continue
        if s.startswith("target/"):
            continue
        p = os.path.join(repo, s)
        try:
            with open(p, "rb") as f:
                data = f.read()
        except (FileNotFoundError, IsADirectoryError):
            data = b"<missing>"
        h.update(n + b"\0" + hashlib.sha256(data).digest())
    return h.hexdigest()


def driver_hash():
    """The facts format is part of the cache key: a changed driver invalidates cached facts."""
    h = hashlib.sha256()
    with open(os.path.join(VERIF, "driver", "src", "main.rs"), "rb") as f:
        h.update(f.read())
    return h.hexdigest()[:16]


def facts_dir(repo=REPO):
    tag = hashlib.sha256(os.path.abspath(repo).encode()).hexdigest()[:10]
    return os.path.join(CACHE, "facts-" + tag)


def ensure_driver():
    src = os.path.join(VERIF, "driver", "src", "main.rs")
    if not os.path.exists(DRIVER) or os.path.getmtime(DRIVER) < os.path.getmtime(src):
        env = dict(os.environ, CARGO_NET_OFFLINE="true")
        r = subprocess.run(
            ["cargo", "build", "--release", "--offline"],
            cwd=os.path.join(VERIF, "driver"),
            env=env,
            stdout=subprocess.PIPE,
            stderr=subprocess.STDOUT,
            text=True,
        )
        if r.returncode != 0:
            raise BuildError("driver build failed:\n" + r.stdout[-4000:])


def _gc_cache():
    """Fact directories of analysed trees that no longer exist (scratch copies) are removed."""
    try:
        now = time.time()
        for n in os.listdir(CACHE):
            p = os.path.join(CACHE, n)
            if not n.startswith("facts-"):
                continue
            if n.endswith(".tmp"):
                if now - os.path.getmtime(p) > 3 * 3600:
                    shutil.rmtree(p, ignore_errors=True)
            elif n.endswith(".lock"):
                if not os.path.isdir(p[:-5]) and now - os.path.getmtime(p) > 3600:
                    os.unlink(p)
            elif os.path.isdir(p):
                try:
                    st = json.load(open(os.path.join(p, "STAMP.json")))
                except Exception:
                    continue
                if st.get("repo") and not os.path.isdir(st["repo"]):
                    shutil.rmtree(p, ignore_errors=True)
    except OSError:
        pass


def ensure_facts(repo=REPO, verbose=True):
    """Return (facts_dir, info). Re-extracts when the tree changed. Serialised by flock."""
    os.makedirs(CACHE, exist_ok=True)
    _gc_cache()
    fd = facts_dir(repo)
    want = source_hash(repo) + "+" + driver_hash()
    # one lock per analysed tree (cargo serialises concurrent users of the shared target dir itself)
    lock_path = fd + ".lock"
    with open(lock_path, "w") as lock:
        fcntl.flock(lock, fcntl.LOCK_EX)
        stamp = os.path.join(fd, "STAMP.json")
        if os.path.exists(stamp):
            try:
                st = json.load(open(stamp))
            except Exception:
                st = {}
            if st.get("source_hash") == want and all(
                os.path.exists(os.path.join(fd, c + ".bodies.jsonl")) for c in CRATES
            ):
                st["reused"] = True
                return fd, st
        ensure_driver()
        t0 = time.time()
        tmp = fd + ".tmp"
        shutil.rmtree(tmp, ignore_errors=True)
        os.makedirs(tmp)
        target = os.path.join(CACHE, "target")
        fp = os.path.join(target, "debug", ".fingerprint")
        # the shared dependency cache is used by one extraction at a time (deleting the members'
        # fingerprints while another cargo run writes them would corrupt that run)
        tlock = open(os.path.join(CACHE, "target.lock"), "w")
        fcntl.flock(tlock, fcntl.LOCK_EX)
        if os.path.isdir(fp):
            for n in os.listdir(fp):
                if n.startswith(("celestia-", "lumina-")):
                    shutil.rmtree(os.path.join(fp, n), ignore_errors=True)
        env = dict(os.environ)
        env.update(
            CARGO_NET_OFFLINE="true",
            RUSTFLAGS="-Awarnings",
            RUSTC_WORKSPACE_WRAPPER=DRIVER,
            LUMINA_FACTS_OUT=tmp,
            LUMINA_FACTS_CRATES=",".join(CRATES),
            CARGO_TARGET_DIR=target,
            LD_LIBRARY_PATH=_sysroot() + "/lib:" + os.environ.get("LD_LIBRARY_PATH", ""),
        )
        env.pop("RUSTC_WRAPPER", None)
        cmd = ["cargo", "+nightly", "check", "--offline"]
        for p in PACKAGES:
            cmd += ["-p", p]
        if verbose:
            print("[facts] extracting MIR facts from %s ..." % repo, file=sys.stderr)
        r = subprocess.run(cmd, cwd=repo, env=env, stdout=subprocess.PIPE, stderr=subprocess.STDOUT, text=True)
        tlock.close()
        if r.returncode != 0:
            raise BuildError("cargo check of %s failed:\n%s" % (repo, r.stdout[-6000:]))
        missing = [c for c in CRATES if not os.path.exists(os.path.join(tmp, c + ".bodies.jsonl"))]
        if missing:
            raise BuildError("fact files missing after extraction: %s\n%s" % (missing, r.stdout[-3000:]))
        st = {
            "source_hash": want,
            "repo": os.path.abspath(repo),
            "extract_s": round(time.time() - t0, 2),
            "at": time.strftime("%Y-%m-%dT%H:%M:%SZ", time.gmtime()),
            "reused": False,
        }
        json.dump(st, open(os.path.join(tmp, "STAMP.json"), "w"))
        shutil.rmtree(fd, ignore_errors=True)
        os.rename(tmp, fd)
        return fd, st


FP_TABLE = os.path.join(VERIF, "tables", "fn_fingerprints.json")
_DEFID = None


def _norm_sig(sig, own):
    import re

    sig = re.sub(r"DefId\([^)]*\)", "D", sig or "")
    return sig.replace(own.rsplit("::", 1)[-1], "@")


def fn_fingerprint(facts, path):
    """(normalised signature, set of callee paths of the function family) - what identifies a function
    independently of its own name."""
    callees = set()
    for q in facts.family(path):
        b = facts.body(q)
        if b is None:
            continue
        for blk in b["blocks"]:
            t = blk["t"]
            if t["k"] == "call" and "f" in t:
                c = t.get("rf") or t["f"]
                if not c.startswith(path):
                    callees.add(c)
    m = facts.fn_meta(path) or {}
    return _norm_sig(m.get("sig", ""), path), callees


DEP_CRATES = ["nmt_rs", "leopard_codec"]
DEP_PACKAGES = ["nmt-rs", "leopard-codec"]


def dep_lock_key(repo=REPO):
    """The [[package]] entries of the analysed dependencies in the tree's Cargo.lock."""
    import re

    lock = open(os.path.join(repo, "Cargo.lock")).read()
    parts = []
    for pkg in DEP_PACKAGES:
        for m in re.finditer(r'\[\[package\]\]\nname = "%s"\n.*?(?=\n\[\[package\]\]|\Z)' % re.escape(pkg), lock, re.S):
            parts.append(m.group(0))
    return hashlib.sha256(("\n".join(parts) + driver_hash()).encode()).hexdigest()[:16], parts


def ensure_dep_facts(repo=REPO, verbose=True):
    """MIR facts of the dependency versions pinned by <repo>/Cargo.lock (harness crate depfacts/)."""
    os.makedirs(CACHE, exist_ok=True)
    key, parts = dep_lock_key(repo)
    if len(parts) != len(DEP_PACKAGES):
        raise BuildError("Cargo.lock does not pin exactly one version of each of %s" % DEP_PACKAGES)
    fd = os.path.join(CACHE, "depfacts-" + key)
    with open(os.path.join(CACHE, "depfacts.lock"), "w") as lock:
        fcntl.flock(lock, fcntl.LOCK_EX)
        if all(os.path.exists(os.path.join(fd, c + ".bodies.jsonl")) for c in DEP_CRATES):
            return fd, {"key": key, "reused": True}
        ensure_driver()
        t0 = time.time()
        tmp = fd + ".tmp"
        shutil.rmtree(tmp, ignore_errors=True)
        os.makedirs(tmp)
        harness = os.path.join(VERIF, "depfacts")
        shutil.copy(os.path.join(repo, "Cargo.lock"), os.path.join(harness, "Cargo.lock"))
        target = os.path.join(CACHE, "target-deps")
        fp = os.path.join(target, "debug", ".fingerprint")
        if os.path.isdir(fp):
            for n in os.listdir(fp):
                if n.startswith(("nmt-rs-", "leopard-codec-", "lumina-depfacts-")):
                    shutil.rmtree(os.path.join(fp, n), ignore_errors=True)
        env = dict(os.environ)
        env.update(
            CARGO_NET_OFFLINE="true",
            RUSTFLAGS="-Awarnings",
            RUSTC_WRAPPER=DRIVER,
            LUMINA_FACTS_OUT=tmp,
            LUMINA_FACTS_CRATES=",".join(DEP_CRATES),
            CARGO_TARGET_DIR=target,
            LD_LIBRARY_PATH=_sysroot() + "/lib:" + os.environ.get("LD_LIBRARY_PATH", ""),
        )
        env.pop("RUSTC_WORKSPACE_WRAPPER", None)
        if verbose:
            print("[facts] extracting MIR facts of %s ..." % ", ".join(DEP_PACKAGES), file=sys.stderr)
        r = subprocess.run(["cargo", "+nightly", "check", "--offline"], cwd=harness, env=env, stdout=subprocess.PIPE, stderr=subprocess.STDOUT, text=True)
        if r.returncode != 0:
            raise BuildError("cargo check of the dependency harness failed:\n%s" % r.stdout[-4000:])
        missing = [c for c in DEP_CRATES if not os.path.exists(os.path.join(tmp, c + ".bodies.jsonl"))]
        if missing:
            raise BuildError("dependency fact files missing after extraction: %s\n%s" % (missing, r.stdout[-2000:]))
        shutil.rmtree(fd, ignore_errors=True)
        os.rename(tmp, fd)
        return fd, {"key": key, "reused": False, "extract_s": round(time.time() - t0, 2)}


class Crate:
    """Lazy view of one crate's fact files."""

    def __init__(self, fdir, name):
        self.name = name
        self.path = os.path.join(fdir, name + ".bodies.jsonl")
        self._fh = open(self.path, "rb")
        self.index = {}  # def path -> (offset, length)
        self.order = []
        off = 0
        for line in self._fh:
            # every line starts with {"path":"...",
            end = line.find(b'","kind"')
            p = json.loads(line[8 : end + 1].decode())
            if p not in self.index:
                self.index[p] = (off, len(line))
                self.order.append(p)
            off += len(line)
        self._cache = {}
        self._meta = None
        self._fdir = fdir
        self._sub = None  # compiled rename normalisation (see Facts.normalise_renames)

    def set_renames(self, rx, table):
        """Re-key the index and rewrite every occurrence of a renamed path while loading."""
        self._sub = (rx, table)
        fix = lambda p: rx.sub(lambda m: table[m.group(0)], p)  # noqa: E731
        self.index = {fix(p): v for p, v in self.index.items()}
        self.order = [fix(p) for p in self.order]
        self._cache = {}
        self._meta = None

    def _rewrite(self, raw):
        if self._sub is None:
            return raw
        rx, table = self._sub
        return rx.sub(lambda m: table[m.group(0)], raw)

    def body(self, path):
        b = self._cache.get(path)
        if b is None:
            ent = self.index.get(path)
            if ent is None:
                return None
            self._fh.seek(ent[0])
            b = json.loads(self._rewrite(self._fh.read(ent[1]).decode()))
            b["crate"] = self.name
            self._cache[path] = b
        return b

    @property
    def meta(self):
        if self._meta is None:
            self._meta = json.loads(self._rewrite(open(os.path.join(self._fdir, self.name + ".meta.json")).read()))
        return self._meta


class Facts:
    def __init__(self, fdir, info=None):
        self.dir = fdir
        self.info = info or {}
        self.crates = {c: Crate(fdir, c) for c in CRATES}
        self.names = list(CRATES)
        self.loaded_bodies = 0
        self.renames = {}  # current name -> name on the reference tree
        if os.environ.get("LUMINA_NO_RENAMES") != "1":
            self.normalise_renames()

    def load_deps(self, repo=REPO, verbose=True):
        """Thorough tier of engine P: add the MIR facts of the pinned nmt-rs / leopard-codec."""
        if DEP_CRATES[0] in self.crates:
            return
        fd, info = ensure_dep_facts(repo, verbose=verbose)
        for c in DEP_CRATES:
            self.crates[c] = Crate(fd, c)
            self.names.append(c)
        self.info = dict(self.info, dep_facts=info)

    # ---------------------------------------------------------------- rename normalisation
    def fn_paths(self, crate):
        return [f["path"] for f in self.crates[crate].meta["fns"]]

    def normalise_renames(self):
        """Rule tables name functions as they are called on the reference tree. A function that
        was merely *renamed* (same module / impl) or *moved* under its old name (same signature and
        callees) is analysed under its reference name, so that a rename is not reported as a missing anchor. Functions that
        have no counterpart stay missing (the rules then fail closed)."""
        import re

        if not os.path.exists(FP_TABLE):
            return
        table = json.load(open(FP_TABLE))
        found = {}
        for c in CRATES:
            ref = table.get(c)
            if not ref:
                continue
            cur = set(self.fn_paths(c))
            missing = [p for p in ref if p not in cur]
            if not missing:
                continue
            new = [p for p in cur if p not in ref]
            fps = {}
            for old in missing:
                parent, leaf = old.rsplit("::", 1) if "::" in old else ("", old)
                # renamed in place (same module / impl), or moved under the same name
                cands = [n for n in new if n not in found and (n.rsplit("::", 1)[0] == parent or n.rsplit("::", 1)[-1] == leaf)]
                scored = []
                for n in cands:
                    if n not in fps:
                        fps[n] = fn_fingerprint(self, n)
                    sig, cal = fps[n]
                    rsig, rcal = ref[old]["sig"], set(ref[old]["callees"])
                    # calls to other renamed functions do not count against the match
                    rcal2 = {x for x in rcal if x not in missing}
                    cal2 = {x for x in cal if x not in new}
                    union = len(rcal2 | cal2)
                    jac = (len(rcal2 & cal2) / union) if union else 1.0
                    same_sig = sig == rsig
                    if jac >= 0.6 or (same_sig and jac >= 0.3) or (same_sig and union <= 2):
                        scored.append((jac + (0.5 if same_sig else 0.0), n))
                scored.sort(reverse=True)
                if scored and (len(scored) == 1 or scored[0][0] - scored[1][0] > 0.1):
                    found[scored[0][1]] = old
        if not found:
            return
        self.renames = found
        rx = re.compile("|".join(re.escape(n) for n in sorted(found, key=len, reverse=True)) .join(["(?:", ")(?![A-Za-z0-9_])"]))
        for c in CRATES:
            self.crates[c].set_renames(rx, found)
        self.info = dict(self.info, renames=found)

    def crate_of(self, path):
        # local paths are crate-qualified: `celestia_types::x`, `<celestia_types::A as B>::m`
        for c in self.names:
            if path in self.crates[c].index:
                return c
        return None

    def body(self, path):
        for c in self.names:
            cr = self.crates[c]
            if path in cr.index:
                b = cr.body(path)
                return b
        return None

    def has(self, path):
        return self.crate_of(path) is not None

    def paths(self, crate=None):
        if crate:
            return list(self.crates[crate].order)
        out = []
        for c in self.names:
            out += self.crates[c].order
        return out

    def find(self, pred, crates=None):
        out = []
        for c in crates or self.names:
            for p in self.crates[c].order:
                if pred(p):
                    out.append(p)
        return out

    def family(self, path):
        """The function plus all nested closure / coroutine bodies."""
        c = self.crate_of(path)
        if c is None:
            return []
        pre = path + "::{"
        return [path] + [p for p in self.crates[c].order if p.startswith(pre)]

    def body_count(self):
        return sum(len(self.crates[c].order) for c in self.names)

    def adt(self, path):
        for c in self.names:
            for a in self.crates[c].meta["adts"]:
                if a["path"] == path:
                    return a
        return None

    def const(self, path):
        for c in self.names:
            for a in self.crates[c].meta["consts"]:
                if a["path"] == path:
                    return a
        return None

    def fn_meta(self, path):
        for c in self.names:
            for a in self.crates[c].meta["fns"]:
                if a["path"] == path:
                    return a
        return None

    def impls(self, crate):
        return self.crates[crate].meta["impls"]


def load(repo=REPO, verbose=True):
    fd, info = ensure_facts(repo, verbose=verbose)
    return Facts(fd, info)
