"""CFG, reachability, dominators and backward data-dependence expressions over exported MIR."""
import fnmatch
import re
from collections import defaultdict

CMP_BIN = {"Eq", "Ne", "Lt", "Le", "Gt", "Ge"}
NEG = {"Eq": "Ne", "Ne": "Eq", "Lt": "Ge", "Ge": "Lt", "Gt": "Le", "Le": "Gt"}
SWAP = {"Eq": "Eq", "Ne": "Ne", "Lt": "Gt", "Gt": "Lt", "Le": "Ge", "Ge": "Le"}
CMP_TAILS = {
    "PartialEq::eq": "Eq",
    "PartialEq::ne": "Ne",
    "PartialOrd::lt": "Lt",
    "PartialOrd::le": "Le",
    "PartialOrd::gt": "Gt",
    "PartialOrd::ge": "Ge",
}
# std-library calls are classified by the last two path segments (generic arguments and the
# internal module path stripped), so the tables do not depend on where core/alloc keep an item
TRANSPARENT_TAILS = {
    "Deref::deref", "DerefMut::deref_mut", "AsRef::as_ref", "AsMut::as_mut", "Borrow::borrow",
    "Clone::clone", "Into::into", "From::from", "IntoIterator::into_iter", "ToOwned::to_owned",
    "Option::as_ref", "Option::as_deref", "Option::as_mut", "Result::as_ref", "Vec::as_slice",
    "<impl [T]>::iter", "hint::must_use", "Pin::new", "Pin::new_unchecked", "Pin::as_mut",
    "Pin::get_unchecked_mut", "Pin::get_mut", "IntoFuture::into_future", "Box::new", "Box::pin",
    "Arc::new", "Option::cloned", "Option::copied", "String::as_str", "<impl str>::as_bytes",
    "Iterator::copied", "Iterator::cloned", "<impl [T]>::to_vec", "Vec::as_ref",
}
LEN_TAILS = {
    "Vec::len", "<impl [T]>::len", "Vec::is_empty", "<impl [T]>::is_empty", "String::len",
    "<impl str>::len", "VecDeque::len", "HashSet::len", "HashMap::len", "ExactSizeIterator::len",
    "String::is_empty", "VecDeque::is_empty", "HashMap::is_empty", "HashSet::is_empty",
    "Bytes::len", "Bytes::is_empty", "BytesMut::len",
}
RESULT_TAILS = {
    "Result::map_err", "Result::map", "Result::and_then", "Result::inspect_err", "Result::inspect",
    "Option::ok_or", "Option::ok_or_else", "Option::map", "Option::and_then", "Option::filter",
    "Into::into", "From::from", "Try::branch",
}
_TAIL_MEMO = {}


def std_tail(name):
    """`core::result::Result::<T, E>::map_err` -> `Result::map_err`; None for non-std paths."""
    t = _TAIL_MEMO.get(name)
    if t is not None or name in _TAIL_MEMO:
        return t
    t = None
    if name.startswith(("core::", "alloc::", "std::", "bytes::")):
        x = name
        prev = None
        while prev != x:
            prev = x
            x = re.sub(r"::<(?!impl )[^<>]*>", "", x)
        # protect `<impl ...>` segments
        segs = re.split(r"::(?![^<]*>)", x)
        t = "::".join(segs[-2:])
    _TAIL_MEMO[name] = t
    return t


def is_tail(name, tails):
    t = std_tail(name)
    return t is not None and t in tails


def glob(pat, s):
    return fnmatch.fnmatchcase(s, pat)


def callee_of(term):
    """Best name of a call terminator's callee: resolved path if any, else the declared one."""
    return term.get("rf") or term.get("f") or ""


def callee_names(term):
    out = []
    if term.get("rf"):
        out.append(term["rf"])
    if term.get("f"):
        out.append(term["f"])
    return out


def call_matches(term, pats):
    if term.get("k") != "call":
        return False
    if isinstance(pats, str):
        pats = [pats]
    for n in callee_names(term):
        for p in pats:
            if glob(p, n):
                return True
    return False


def norm_proj(proj):
    """Projection list -> tuple of elements: field names, '@Variant', '[]'. Deref dropped."""
    out = []
    for e in proj or ():
        if e == "*" or e == "?":
            continue
        if e[0] == "f":
            out.append(e[2])
        elif e[0] == "dc":
            out.append("@" + e[1])
        elif e[0] in ("i", "ci", "sub"):
            out.append("[]")
    return tuple(out)


class Body:
    def __init__(self, raw):
        self.raw = raw
        self.path = raw["path"]
        self.crate = raw.get("crate")
        self.file = raw["file"]
        self.line = raw["line"]
        self.blocks = raw["blocks"]
        self.locals = raw["locals"]
        self.argc = raw["argc"]
        self.n = len(self.blocks)
        self.is_coroutine = bool(raw.get("coroutine"))
        # precise captures print as `id__namespace` for the place `id.namespace`
        self.captures = [c.replace("__", ".") for c in raw["captures"]] if raw.get("captures") is not None else None
        self._succ = None
        self._pred = None
        self._defs = None
        self._mutcalls = None
        self._expr_memo = {}
        self._dom = None

    # ------------------------------------------------------------------ CFG
    def term(self, b):
        return self.blocks[b]["t"]

    def stmts(self, b):
        return [s for s in self.blocks[b]["st"] if "d" in s]

    def loc(self, b, i=None):
        if i is None:
            s = self.blocks[b]["t"].get("s")
        else:
            s = self.stmts(b)[i].get("s")
        if isinstance(s, int):
            return "%s:%d" % (self.file, s)
        return str(s)

    def out_edges(self, b, with_ydrop=False):
        """Normal (non-unwind) out edges of block b as (dst, label)."""
        t = self.blocks[b]["t"]
        k = t["k"]
        if k == "goto":
            return [(t["to"], "goto")]
        if k == "switch":
            es = [(tb, v) for v, tb in t["targets"]]
            es.append((t["otherwise"], "otherwise"))
            return es
        if k in ("call", "drop", "assert"):
            return [(t["to"], "next")] if t.get("to") is not None else []
        if k == "yield":
            es = [(t["to"], "resume")]
            if with_ydrop and t.get("drop") is not None:
                es.append((t["drop"], "ydrop"))
            return es
        return []

    def succ(self, b):
        if self._succ is None:
            self._succ = [[d for d, _ in self.out_edges(i)] for i in range(self.n)]
        return self._succ[b]

    def preds(self):
        if self._pred is None:
            p = [[] for _ in range(self.n)]
            for b in range(self.n):
                if self.blocks[b]["cl"]:
                    continue
                for d in self.succ(b):
                    p[d].append(b)
            self._pred = p
        return self._pred

    def reachable_from(self, starts, removed_edges=(), removed_blocks=(), with_ydrop=False):
        """Forward reachability over normal edges. starts: iterable of blocks.
        removed_edges: set of (src, dst) pairs."""
        seen = set()
        stack = [s for s in starts if s not in removed_blocks]
        removed_edges = set(removed_edges)
        while stack:
            b = stack.pop()
            if b in seen:
                continue
            seen.add(b)
            for d, _ in self.out_edges(b, with_ydrop):
                if (b, d) in removed_edges or d in removed_blocks or d in seen:
                    continue
                stack.append(d)
        return seen

    def can_reach(self, targets, removed_edges=(), removed_blocks=()):
        """Set of blocks from which some block in targets is reachable (targets included)."""
        removed_edges = set(removed_edges)
        preds = self.preds()
        seen = set()
        stack = [t for t in targets if t not in removed_blocks]
        while stack:
            b = stack.pop()
            if b in seen:
                continue
            seen.add(b)
            for p in preds[b]:
                if (p, b) in removed_edges or p in removed_blocks or p in seen:
                    continue
                stack.append(p)
        return seen

    def const_effects(self):
        """Per block: the effect of its statements/terminator on the *tracked* locals - locals that
        some switch tests directly and that are assigned a literal somewhere (the temporaries of
        `matches!`, `a && b` used as a value, `let flag = if .. { true } else { false }`).
        block -> {local: value or None (unknown after this block)}; plus the set of tracked locals."""
        if getattr(self, "_const_eff", None) is not None:
            return self._const_eff
        switched = set()
        for b in range(self.n):
            t = self.blocks[b]["t"]
            if t["k"] == "switch":
                pl = t["d"].get("mv") or t["d"].get("cp")
                if pl and not pl.get("p"):
                    switched.add(pl["l"])
        lit = set()
        for b in range(self.n):
            for st in self.stmts(b):
                d, r = st["d"], st["r"]
                if d["l"] in switched and not d.get("p") and r["k"] == "use" and isinstance(r.get("a"), dict) and "c" in r["a"] and isinstance(r["a"].get("v"), (int, bool)):
                    lit.add(d["l"])
        tracked = switched & lit
        # a local whose address is taken can change behind our back: do not track it
        for b in range(self.n):
            for st in self.stmts(b):
                r = st["r"]
                if r["k"] in ("ref", "rawptr") and isinstance(r.get("p"), dict) and r["p"].get("l") in tracked:
                    tracked.discard(r["p"]["l"])
        eff = {}
        if tracked:
            for b in range(self.n):
                e = {}
                for st in self.stmts(b):
                    d, r = st["d"], st["r"]
                    if d["l"] in tracked:
                        if not d.get("p") and r["k"] == "use" and isinstance(r.get("a"), dict) and "c" in r["a"] and isinstance(r["a"].get("v"), (int, bool)):
                            e[d["l"]] = int(r["a"]["v"])
                        else:
                            e[d["l"]] = None
                t = self.blocks[b]["t"]
                if t["k"] == "call" and t.get("dest") and t["dest"]["l"] in tracked:
                    e[t["dest"]["l"]] = None
                if e:
                    eff[b] = e
        self._const_eff = (eff, tracked)
        return self._const_eff

    def path_to(self, starts, targets, removed_edges=(), removed_blocks=()):
        """Shortest block path from any start to any target avoiding removed edges. Paths that are
        infeasible for one of two simple reasons are not reported: two switches on the same pure
        condition deciding differently, and a switch on a local that holds a literal assigned
        earlier on the same path taking the other edge."""
        removed_edges = set(removed_edges)
        targets = set(targets)
        from collections import deque

        corr = self.correlated_switches()
        ceff, tracked = self.const_effects()
        prev = {}
        dq = deque()
        for s in starts:
            if s in removed_blocks:
                continue
            st = (s, frozenset())
            prev[st] = None
            dq.append(st)
        while dq:
            st = dq.popleft()
            b, dec = st
            if b in targets:
                path = []
                while st is not None:
                    path.append(st[0])
                    st = prev[st]
                return list(reversed(path))
            k = corr.get(b)
            base = dec
            e = ceff.get(b)
            if e:
                base = frozenset(x for x in dec if not (x[0] == "=" and x[1] in e)) | frozenset(("=", l, v) for l, v in e.items() if v is not None)
            known = None
            t = self.blocks[b]["t"]
            if tracked and t["k"] == "switch":
                pl = t["d"].get("mv") or t["d"].get("cp")
                if pl and not pl.get("p") and pl["l"] in tracked:
                    for x in base:
                        if x[0] == "=" and x[1] == pl["l"]:
                            known = x[2]
            vals = [v for v, _ in t["targets"]] if t["k"] == "switch" else []
            for d, lab in self.out_edges(b):
                if (b, d) in removed_edges or d in removed_blocks:
                    continue
                if known is not None:
                    if lab == "otherwise":
                        if known in vals:
                            continue
                    elif lab != known:
                        continue
                nd = base
                if k is not None:
                    # a correlated pure condition must be decided the same way every time
                    if any(x[0] != "=" and x[0] == k and x[1] != lab for x in base):
                        continue
                    nd = base | {(k, lab)}
                ns = (d, nd)
                if ns in prev:
                    continue
                prev[ns] = st
                dq.append(ns)
        return None

    def cond_key(self, e, depth=0):
        """Structural key of a *pure observer* condition (arguments, constants, field
        projections, std length/emptiness/is_some observers); None when the value may differ
        between two evaluations. Two switches with the same key are correlated."""
        if depth > 8:
            return None
        tag = e[0]
        if tag == "arg":
            return ("arg", e[1], e[2])
        if tag == "const":
            return ("const", str(e[1]), e[2])
        if tag == "un":
            k = self.cond_key(e[2], depth + 1)
            return None if k is None else ("un", e[1], k)
        if tag == "bin":
            a, b = self.cond_key(e[2], depth + 1), self.cond_key(e[3], depth + 1)
            return None if a is None or b is None else ("bin", e[1], a, b)
        if tag == "cast":
            k = self.cond_key(e[1], depth + 1)
            return None if k is None else ("cast", k)
        if tag == "discr":
            k = self.cond_key(e[1], depth + 1)
            return None if k is None else ("discr", k)
        if tag == "call":
            tl = std_tail(e[2])
            if tl in LEN_TAILS or tl in TRANSPARENT_TAILS or tl in ("Option::is_some", "Option::is_none", "Result::is_ok", "Result::is_err"):
                ks = [self.cond_key(a, depth + 1) for a in e[3]]
                if any(k is None for k in ks):
                    return None
                return ("call", tl, tuple(ks))
        return None

    def correlated_switches(self):
        """switch block -> key, for keys shared by at least two switches whose observed
        places are never written (arguments only)."""
        memo = getattr(self, "_corr", None)
        if memo is not None:
            return memo
        keys = {}
        for b in range(self.n):
            if self.blocks[b]["cl"] or self.blocks[b]["t"]["k"] != "switch":
                continue
            k = self.cond_key(self.switch_discr_expr(b))
            if k is not None and any(x == "arg" for x in _flatten(k)):
                keys[b] = k
        cnt = {}
        for b, k in keys.items():
            cnt[k] = cnt.get(k, 0) + 1
        self._corr = {b: k for b, k in keys.items() if cnt[k] >= 2}
        return self._corr

    def render_path(self, path):
        """Human readable: locations of the branch decisions along a block path."""
        out = []
        last = None
        for b in path:
            t = self.blocks[b]["t"]
            if t["k"] in ("switch", "call", "return"):
                l = self.loc(b)
                if l != last:
                    out.append(l)
                    last = l
        return out

    def dominators(self):
        if self._dom is not None:
            return self._dom
        reach = self.reachable_from([0])
        order = []
        seen = set()

        def dfs(b):
            stack = [(b, iter(self.succ(b)))]
            seen.add(b)
            while stack:
                node, it = stack[-1]
                adv = False
                for d in it:
                    if d not in seen:
                        seen.add(d)
                        stack.append((d, iter(self.succ(d))))
                        adv = True
                        break
                if not adv:
                    order.append(node)
                    stack.pop()

        dfs(0)
        rpo = list(reversed(order))
        idx = {b: i for i, b in enumerate(rpo)}
        idom = {0: 0}
        preds = self.preds()
        changed = True
        while changed:
            changed = False
            for b in rpo[1:]:
                ps = [p for p in preds[b] if p in idom and p in reach]
                if not ps:
                    continue
                new = ps[0]
                for p in ps[1:]:
                    a, c = p, new
                    while a != c:
                        while idx[a] > idx[c]:
                            a = idom[a]
                        while idx[c] > idx[a]:
                            c = idom[c]
                    new = a
                if idom.get(b) != new:
                    idom[b] = new
                    changed = True
        self._dom = idom
        return idom

    def dominates(self, a, b):
        idom = self.dominators()
        if b not in idom:
            return False
        while True:
            if a == b:
                return True
            if b == 0:
                return False
            b = idom[b]

    # ------------------------------------------------------------------ defs
    def defs(self):
        """local -> list of definitions: ('assign', b, i, proj, rvalue) | ('call', b, term) |
        ('yield', b, term) | ('mutcall', b, term)"""
        if self._defs is not None:
            return self._defs
        d = defaultdict(list)
        # locals whose &mut (or raw mut) reference is taken: alias local -> target place
        mutref = {}  # alias local -> (base local, proj)
        for b in range(self.n):
            if self.blocks[b]["cl"]:
                continue
            for i, s in enumerate(self.stmts(b)):
                dst = s["d"]
                r = s["r"]
                d[dst["l"]].append(("assign", b, i, norm_proj(dst.get("p")), r))
                if r["k"] in ("ref", "rawptr") and r.get("mut") and not dst.get("p"):
                    mutref[dst["l"]] = (r["p"]["l"], norm_proj(r["p"].get("p")), "*" in (r["p"].get("p") or []))
            t = self.blocks[b]["t"]
            if t["k"] == "call":
                d[t["dest"]["l"]].append(("call", b, t))
            elif t["k"] == "yield":
                d[t["ra"]["l"]].append(("yield", b, t))
        # propagate mut-ref aliases through plain moves/reborrows: _a = move _b ; _a = &mut (*_b)
        changed = True
        rounds = 0
        while changed and rounds < 6:
            changed = False
            rounds += 1
            for l, ds in list(d.items()):
                if l in mutref:
                    continue
                for df in ds:
                    if df[0] != "assign" or df[3]:
                        continue
                    r = df[4]
                    src = None
                    if r["k"] == "use":
                        a = r["a"]
                        pl = a.get("mv") or a.get("cp")
                        if pl and not norm_proj(pl.get("p")):
                            src = pl["l"]
                    if src is not None and src in mutref:
                        mutref[l] = mutref[src]
                        changed = True
        # a `&mut` obtained *through* a mutable borrow (deref_mut / index_mut / get_mut / as_mut ...)
        # still points into the same base: calls receiving it mutate the base as well
        reborrow = ("DerefMut::deref_mut", "AsMut::as_mut", "IndexMut::index_mut", "Option::as_mut", "Vec::as_mut_slice",
                    "HashMap::get_mut", "<impl [T]>::get_mut", "<impl [T]>::iter_mut", "Vec::iter_mut", "Pin::as_mut",
                    "Pin::get_mut", "Pin::get_unchecked_mut", "BorrowMut::borrow_mut", "<impl [T]>::last_mut", "<impl [T]>::first_mut",
                    "OccupiedEntry::get_mut", "OccupiedEntry::into_mut", "Entry::or_default", "Entry::or_insert", "Entry::or_insert_with", "HashMap::entry")
        changed = True
        rounds = 0
        while changed and rounds < 6:
            changed = False
            rounds += 1
            for b in range(self.n):
                if self.blocks[b]["cl"]:
                    continue
                t = self.blocks[b]["t"]
                if t["k"] != "call" or "f" not in t or not t["args"] or t["dest"].get("p"):
                    continue
                if std_tail(t["f"]) not in reborrow:
                    continue
                pl = t["args"][0].get("mv") or t["args"][0].get("cp")
                if pl and not norm_proj(pl.get("p")) and pl["l"] in mutref and t["dest"]["l"] not in mutref:
                    mutref[t["dest"]["l"]] = mutref[pl["l"]]
                    changed = True
            for l, ds in list(d.items()):
                if l in mutref:
                    continue
                for df in ds:
                    if df[0] != "assign" or df[3]:
                        continue
                    r = df[4]
                    src = None
                    if r["k"] == "use":
                        pl = r["a"].get("mv") or r["a"].get("cp")
                        if pl and not norm_proj(pl.get("p")):
                            src = pl["l"]
                    elif r["k"] == "ref" and r.get("mut") and r["p"].get("p") == ["*"]:
                        src = r["p"]["l"]
                    if src is not None and src in mutref:
                        mutref[l] = mutref[src]
                        changed = True
        # resolve chains: `&mut *p` where p itself is a mutable borrow of x points into x
        for l in list(mutref):
            base, proj, via_deref = mutref[l]
            hops = 0
            while via_deref and base in mutref and hops < 6:
                nb, np_, nd = mutref[base]
                base, proj, via_deref = nb, np_ + proj, nd
                hops += 1
            mutref[l] = (base, proj, via_deref)
        self.mutref = mutref
        mc = defaultdict(list)
        for b in range(self.n):
            if self.blocks[b]["cl"]:
                continue
            t = self.blocks[b]["t"]
            if t["k"] != "call":
                continue
            for a in t["args"]:
                pl = a.get("mv") or a.get("cp")
                if not pl or norm_proj(pl.get("p")):
                    continue
                if pl["l"] in mutref:
                    base, proj, _ = mutref[pl["l"]]
                    d[base].append(("mutcall", b, t, proj))
                    mc[base].append((b, t))
        self._defs = d
        self._mutcalls = mc
        return d

    # ------------------------------------------------------------------ expressions
    def _after(self, b):
        """Blocks reachable from the successors of b (positions strictly after b's terminator)."""
        m = self.__dict__.setdefault("_after_memo", {})
        r = m.get(b)
        if r is None:
            r = self.reachable_from([d for d, _ in self.out_edges(b, True)], with_ydrop=True)
            m[b] = r
        return r

    def _reaches(self, kind, bd, at):
        """Can a definition of `kind` made in block bd be observed at block `at`?"""
        if at is None:
            return True
        if kind == "assign" and bd == at:
            return True
        return at in self._after(bd)

    def expr_operand(self, op, depth=0, at=None):
        if "c" in op:
            if "fn" in op:
                return ("fnptr", op["fn"])
            if op.get("promoted") and "v" not in op:
                # a promoted constant (`&CONST`, `&[..]`): expose the named constants it is built from
                m = re.search(r"promoted\[(\d+)\]", op.get("s") or "")
                refs = (self.raw.get("promoted") or [])
                if m and int(m.group(1)) < len(refs):
                    kids = []
                    for r in refs[int(m.group(1))]:
                        if r.startswith("fn:"):
                            kids.append(("fnptr", r[3:]))
                        elif r.startswith("lit:"):
                            kids.append(("const", int(r[4:]), None, None))
                        else:
                            kids.append(("const", None, r, None))
                    if kids:
                        return ("agg", "promoted", None, tuple(kids), ())
            return ("const", op.get("v", op.get("s")), op.get("cdef"), op.get("ty"))
        pl = op.get("cp") or op.get("mv")
        if pl is None:
            return ("unknown", "op")
        return self.expr_place(pl["l"], norm_proj(pl.get("p")), depth, at)

    def expr_place(self, local, suffix=(), depth=0, at=None):
        key = (local, suffix, at)
        memo = self._expr_memo
        if key in memo:
            v = memo[key]
            if v is None:
                # re-entered while being computed (loop-carried / self-mutating value): a lazy
                # reference that walkers resolve against the finished memo table
                return ("lazy", self, key)
            return v
        if depth > 60:
            return ("unknown", "depth")
        memo[key] = None
        alts = []
        defs = self.defs().get(local, [])
        if 1 <= local <= self.argc:
            alts.append(self._arg_leaf(local, suffix))
        for df in defs:
            kind = df[0]
            if not self._reaches(kind, df[1], at):
                continue
            if kind == "assign":
                _, b, i, dproj, r = df
                if dproj:
                    # partial definition `_x.f.. = r`
                    n = min(len(dproj), len(suffix))
                    if dproj[:n] != suffix[:n]:
                        continue
                    rest = suffix[len(dproj):] if len(suffix) > len(dproj) else ()
                    e = self.expr_rvalue(r, rest, b, depth + 1)
                    if len(suffix) < len(dproj):
                        e = ("part", dproj[len(suffix):], e)
                    alts.append(e)
                else:
                    alts.append(self.expr_rvalue(r, suffix, b, depth + 1))
            elif kind == "call":
                _, b, t = df
                e = self.expr_call(t, b, depth + 1)
                alts.append(("proj", suffix, e) if suffix else e)
            elif kind == "mutcall":
                _, b, t, proj = df
                n = min(len(proj), len(suffix))
                if proj[:n] != suffix[:n]:
                    continue
                e = self.expr_call(t, b, depth + 1)
                alts.append(("mut", e))
            elif kind == "yield":
                alts.append(("resume",))
        if not alts:
            if self.captures is not None and local == 1:
                e = self._arg_leaf(1, suffix)
            else:
                e = ("unknown", "undef _%d" % local)
        elif len(alts) == 1:
            e = alts[0]
        else:
            e = ("phi", tuple(alts))
        memo[key] = e
        return e

    def _arg_leaf(self, local, suffix):
        sfx = tuple(x for x in suffix if not x.startswith("@") and x != "[]")
        if self.captures is not None and local == 1 and sfx and sfx[0].isdigit() and int(sfx[0]) < len(self.captures):
            # closure / coroutine environment: name the captured variable
            return ("arg", self.captures[int(sfx[0])], sfx[1:])
        return ("arg", local, sfx)

    def expr_rvalue(self, r, suffix, b, depth):
        k = r["k"]
        if k == "use":
            a = r["a"]
            pl = a.get("cp") or a.get("mv")
            if pl is not None:
                return self.expr_place(pl["l"], norm_proj(pl.get("p")) + suffix, depth, b)
            e = self.expr_operand(a, depth, b)
            return ("proj", suffix, e) if suffix else e
        if k in ("ref", "rawptr"):
            pl = r["p"]
            return self.expr_place(pl["l"], norm_proj(pl.get("p")) + suffix, depth, b)
        if k == "cast":
            e = self.expr_operand(r["a"], depth, b)
            e = ("cast", e, r.get("ty"), r.get("ck"))
            return ("proj", suffix, e) if suffix else e
        if k == "bin":
            e = ("bin", r["op"], self.expr_operand(r["a"], depth, b), self.expr_operand(r["b"], depth, b))
            return ("proj", suffix, e) if suffix else e
        if k == "un":
            e = ("un", r["op"], self.expr_operand(r["a"], depth, b))
            return ("proj", suffix, e) if suffix else e
        if k == "discr":
            pl = r["p"]
            return ("discr", self.expr_place(pl["l"], norm_proj(pl.get("p")), depth, b))
        if k == "agg":
            ak = r["ak"]
            ops = r["ops"]
            if ak in ("adt", "tuple") and suffix:
                # select the field the suffix asks for
                sfx = [x for x in suffix]
                while sfx and sfx[0].startswith("@"):
                    sfx.pop(0)
                if sfx:
                    fld = sfx[0]
                    names = r.get("fields") if ak == "adt" else [str(i) for i in range(len(ops))]
                    if names and fld in names and names.index(fld) < len(ops):
                        return self._sub(self.expr_operand(ops[names.index(fld)], depth, b), tuple(sfx[1:]))
            if ak in ("closure", "coroutine", "coroutine_closure"):
                return ("closure", r["def"], tuple(self.expr_operand(o, depth, b) for o in ops))
            name = r.get("adt", ak)
            e = ("agg", name, r.get("variant"), tuple(self.expr_operand(o, depth, b) for o in ops), tuple(r.get("fields") or ()))
            return ("proj", suffix, e) if suffix else e
        if k == "repeat":
            return ("agg", "repeat", None, (self.expr_operand(r["a"], depth, b),), ())
        if k == "setdiscr":
            return ("const", r["vi"], None, "variant")
        return ("unknown", r.get("s", k))

    def _sub(self, e, suffix):
        if not suffix:
            return e
        if e[0] == "arg":
            return ("arg", e[1], e[2] + tuple(x for x in suffix if not x.startswith("@") and x != "[]"))
        return ("proj", suffix, e)

    def edge_conditions(self, block):
        """Switch edges every path entry -> block must take: list of (switch block, label, target)."""
        out = []
        for s in sorted(self.reachable_from([0])):
            if self.blocks[s]["t"]["k"] != "switch" or s == block:
                continue
            for d, lab in self.out_edges(s):
                if block not in self.reachable_from([0], removed_edges={(s, d)}):
                    out.append((s, lab, d))
        return out

    def expr_call(self, t, b, depth):
        args = tuple(self.expr_operand(a, depth, b) for a in t["args"])
        if "f" in t:
            return ("call", callee_of(t), t["f"], args, b)
        # indirect call through a fn pointer / closure value
        return ("call", "<indirect>", "<indirect>", (self.expr_operand(t["fop"], depth, b),) + args, b)

    def switch_discr_expr(self, b):
        t = self.blocks[b]["t"]
        assert t["k"] == "switch"
        return self.expr_operand(t["d"], 0, b)

    def call_sites(self, pats):
        out = []
        for b in range(self.n):
            if self.blocks[b]["cl"]:
                continue
            if call_matches(self.blocks[b]["t"], pats):
                out.append(b)
        return out


# ---------------------------------------------------------------------- expression utilities

def walk(e, seen=None):
    """Iterate over all nodes of an expression DAG."""
    if seen is None:
        seen = set()
    stack = [e]
    while stack:
        x = stack.pop()
        if id(x) in seen:
            continue
        seen.add(id(x))
        yield x
        tag = x[0]
        if tag == "call":
            stack.extend(x[3])
        elif tag == "bin":
            stack.append(x[2])
            stack.append(x[3])
        elif tag in ("un",):
            stack.append(x[2])
        elif tag == "cast":
            stack.append(x[1])
        elif tag == "discr":
            stack.append(x[1])
        elif tag == "agg":
            stack.extend(x[3])
        elif tag == "closure":
            stack.extend(x[2])
        elif tag == "phi":
            stack.extend(x[1])
        elif tag in ("proj", "part"):
            stack.append(x[2])
        elif tag == "mut":
            stack.append(x[1])
        elif tag == "lazy":
            v = x[1]._expr_memo.get(x[2])
            if v is not None:
                stack.append(v)


def _flatten(k):
    if isinstance(k, tuple):
        for x in k:
            yield from _flatten(x)
    else:
        yield k


def walk_direct(e):
    """Like walk, but does not follow `mutated_by(..)` alternatives (values a local may have
    been changed to by a callee holding a &mut to it): the direct provenance only."""
    seen = set()
    stack = [e]
    while stack:
        x = stack.pop()
        if id(x) in seen:
            continue
        seen.add(id(x))
        tag = x[0]
        if tag == "mut":
            continue
        yield x
        if tag == "call":
            stack.extend(x[3])
        elif tag == "bin":
            stack.append(x[2]); stack.append(x[3])
        elif tag == "un":
            stack.append(x[2])
        elif tag in ("cast", "discr"):
            stack.append(x[1])
        elif tag == "agg":
            stack.extend(x[3])
        elif tag == "closure":
            stack.extend(x[2])
        elif tag == "phi":
            stack.extend(x[1])
        elif tag in ("proj", "part"):
            stack.append(x[2])
        elif tag == "lazy":
            v = x[1]._expr_memo.get(x[2])
            if v is not None:
                stack.append(v)


def direct_arg_leaves(e):
    return {arg_name(x[1]) + "".join("." + f for f in x[2]) for x in walk_direct(e) if x[0] == "arg"}


def arg_name(a):
    return "a%d" % a if isinstance(a, int) else str(a)


def leaves(e, facts=None, depth=0):
    """Flattened leaf strings of an expression:
    'a<i>[.field...]', 'call:<path>', 'const:<def path>', 'lit:<value>', 'len:a<i>...',
    'closure:<def>'. With facts given, closures contribute the leaves of their body's
    returned value / guards (captures mapped)."""
    out = set()
    for x in walk(e):
        tag = x[0]
        if tag == "arg":
            out.add(arg_name(x[1]) + "".join("." + f for f in x[2]))
        elif tag == "const":
            if x[2]:
                out.add("const:" + x[2])
            if x[1] is not None and not isinstance(x[1], str):
                out.add("lit:%s" % x[1])
            elif isinstance(x[1], str):
                out.add("lit:" + x[1])
        elif tag == "fnptr":
            out.add("fn:" + x[1])
        elif tag == "call":
            out.add("call:" + x[1])
            if x[2] != x[1]:
                out.add("call:" + x[2])
            if is_tail(x[2], LEN_TAILS) or x[1].endswith("::len") or x[1].endswith("::is_empty"):
                for a in x[3][:1]:
                    for y in walk(a):
                        if y[0] == "arg":
                            out.add("len:" + arg_name(y[1]) + "".join("." + f for f in y[2]))
        elif tag == "closure":
            out.add("closure:" + x[1])
            if facts is not None and depth < 3:
                for lf in closure_leaves(facts, x, depth + 1):
                    out.add(lf)
        elif tag in ("proj", "part"):
            for f in x[1]:
                if not f.startswith("@") and f != "[]" and not f.isdigit():
                    out.add("field:" + f)
        elif tag == "un" and x[1] == "PtrMetadata":
            for y in walk(x[2]):
                if y[0] == "arg":
                    out.add("len:" + arg_name(y[1]) + "".join("." + f for f in y[2]))
    return out


def closure_leaves(facts, cl, depth):
    """Leaves contributed by a closure value: everything its body's return value and its
    internal branch conditions depend on, with the closure's captures substituted."""
    from . import mir as _m  # noqa

    body = facts.fn(cl[1]) if hasattr(facts, "fn") else None
    if body is None:
        return set()
    out = set()
    cap_leaves = [leaves(c) for c in cl[2]]
    inner = set()
    for b in range(body.n):
        if body.blocks[b]["cl"]:
            continue
        t = body.blocks[b]["t"]
        if t["k"] == "switch":
            inner |= leaves(body.expr_operand(t["d"], 0, b), facts, depth)
        for i, s in enumerate(body.stmts(b)):
            if s["d"]["l"] == 0:
                inner |= leaves(body.expr_rvalue(s["r"], (), b, 0), facts, depth)
        if t["k"] == "call" and t["dest"]["l"] == 0:
            inner |= leaves(body.expr_call(t, b, 0), facts, depth)
    caps = body.captures or []
    for lf in inner:
        m = re.match(r"^(len:)?([A-Za-z_][A-Za-z_0-9]*)((?:\..*)?)$", lf)
        if m and m.group(2) in caps and not re.match(r"^a\d+$", m.group(2)):
            idx = caps.index(m.group(2))
            if idx < len(cap_leaves):
                for c in cap_leaves[idx]:
                    if re.match(r"^[A-Za-z_][A-Za-z_0-9]*(\.|$)", c):
                        out.add((m.group(1) or "") + c + m.group(3))
                    else:
                        out.add(c)
            continue
        if re.match(r"^(len:)?a\d+", lf):
            # the closure's own parameters (elements handed in by the caller of the closure)
            out.add("closure_param:" + lf)
        else:
            out.add(lf)
    return out


def leaf_match(pattern, leaf):
    """pattern forms: 'a1.index' (that field or anything below it), 'call:<glob>',
    'const:<glob>', 'lit:<v>', 'len:a1.shares', any with glob characters."""
    if pattern.startswith(("call:", "const:", "fn:", "closure:", "closure_param:", "field:")):
        return glob(pattern, leaf)
    if pattern.startswith("lit:"):
        return leaf == pattern
    if "*" in pattern:
        return glob(pattern, leaf)
    return leaf == pattern or leaf.startswith(pattern + ".")


def has_leaf(leafset, pattern):
    if isinstance(pattern, (list, tuple, set, frozenset)):
        # alternatives
        return any(has_leaf(leafset, p) for p in pattern)
    return any(leaf_match(pattern, l) for l in leafset)


def has_all(leafset, patterns):
    return all(has_leaf(leafset, p) for p in patterns)


def fmt_expr(e, depth=0):
    """Compact rendering for evidence / reports."""
    if depth > 6:
        return "…"
    tag = e[0]
    if tag == "arg":
        return arg_name(e[1]) + "".join("." + f for f in e[2])
    if tag == "const":
        return str(e[2] or e[1])
    if tag == "fnptr":
        return e[1].split("::")[-1]
    if tag == "call":
        name = e[1]
        short = re.sub(r"<[^<>]*>", "", name).split("::")
        short = "::".join(short[-2:])
        return "%s(%s)" % (short, ", ".join(fmt_expr(a, depth + 1) for a in e[3]))
    if tag == "bin":
        return "(%s %s %s)" % (fmt_expr(e[2], depth + 1), e[1], fmt_expr(e[3], depth + 1))
    if tag == "un":
        return "%s(%s)" % (e[1], fmt_expr(e[2], depth + 1))
    if tag == "cast":
        return "(%s as %s)" % (fmt_expr(e[1], depth + 1), (e[2] or "?")[-24:])
    if tag == "discr":
        return "discr(%s)" % fmt_expr(e[1], depth + 1)
    if tag == "agg":
        return "%s%s{%s}" % (str(e[1]).split("::")[-1], "::" + e[2] if e[2] else "", ", ".join(fmt_expr(a, depth + 1) for a in e[3]))
    if tag == "closure":
        return "closure[%s](%s)" % (e[1].split("::", 2)[-1][-40:], ", ".join(fmt_expr(a, depth + 1) for a in e[2]))
    if tag == "phi":
        return "phi(%s)" % " | ".join(fmt_expr(a, depth + 1) for a in e[1][:4])
    if tag in ("proj", "part"):
        return "%s.%s" % (fmt_expr(e[2], depth + 1), ".".join(e[1]))
    if tag == "mut":
        return "mutated_by(%s)" % fmt_expr(e[1], depth + 1)
    if tag == "lazy":
        return "<loop>"
    return tag
