"""Engine P, part 2: panic-capable site enumeration and discharge."""
import json
import os
import re

from .mir import callee_of, fmt_expr, glob, has_leaf, std_tail, walk
from .rules import root_fn

ASSERT_KINDS = ("Overflow", "OverflowNeg", "DivisionByZero", "RemainderByZero", "BoundsCheck")
PANIC_TAILS = {
    "Option::unwrap", "Option::expect", "Result::unwrap", "Result::expect", "Result::unwrap_err", "Result::expect_err",
    "Index::index", "IndexMut::index_mut", "<impl [T]>::split_at", "<impl [T]>::split_at_mut", "<impl [T]>::copy_from_slice",
    "<impl [T]>::clone_from_slice", "<impl [T]>::chunks", "<impl [T]>::chunks_mut", "<impl [T]>::chunks_exact", "<impl [T]>::windows",
    "<impl [T]>::swap", "<impl [T]>::rotate_left", "<impl [T]>::rotate_right", "Vec::remove", "Vec::insert", "Vec::drain",
    "Vec::split_off", "Vec::swap_remove", "Vec::truncate_front", "VecDeque::remove", "String::remove", "String::insert",
    "<impl usize>::pow", "<impl u64>::pow", "<impl u32>::pow", "<impl usize>::next_power_of_two", "<impl u64>::next_power_of_two",
    "<impl usize>::ilog2", "<impl u64>::ilog2", "<impl u32>::ilog2", "<impl usize>::div_ceil",
    "Add::add", "Sub::sub", "Mul::mul", "Div::div", "Rem::rem", "AddAssign::add_assign", "SubAssign::sub_assign", "Neg::neg",
    "<impl str>::split_at", "Iterator::step_by",
    "Duration::from_secs_f64", "Duration::from_secs_f32", "Duration::mul_f64", "Instant::duration_since",
    "slice::from_raw_parts",
    # allocation sizes: `capacity overflow` panic (and, below that, an allocation the size of which a peer chose)
    "Vec::with_capacity", "Vec::reserve", "Vec::reserve_exact", "VecDeque::with_capacity", "VecDeque::reserve", "String::with_capacity",
    "BytesMut::with_capacity", "BytesMut::reserve", "Vec::resize", "vec::from_elem", "HashMap::with_capacity", "HashSet::with_capacity",
}
PANIC_GLOBS = [
    "core::panicking::*", "std::panicking::*", "core::option::unwrap_failed", "core::option::expect_failed", "core::result::unwrap_failed",
    "bytes::buf::buf_impl::Buf::get_*", "bytes::buf::buf_impl::Buf::advance", "bytes::buf::buf_impl::Buf::copy_to_*", "bytes::buf::buf_impl::Buf::split_to",
    "bytes::bytes::Bytes::split_to", "bytes::bytes::Bytes::split_off", "bytes::bytes::Bytes::slice", "bytes::bytes_mut::BytesMut::split_to", "bytes::bytes_mut::BytesMut::split_off",
    "bytes::buf::buf_mut::BufMut::put_*",
    # extern entry points with a panic precondition found by the dependency cone (C16 thorough):
    # leopard-codec computes `shards.len() - data_shards` and `ceil_pow2(parity_shards)` (= `0 - 1` for
    # zero parity shards) before it validates the shards
    "leopard_codec::encode", "leopard_codec::reconstruct",
]
# arithmetic operator traits are only panic-capable for non-primitive operand types that
# document a panic (Duration, Instant, Time, tendermint Height ...); primitives use Assert
ARITH_TAILS = {"Add::add", "Sub::sub", "Mul::mul", "Div::div", "Rem::rem", "AddAssign::add_assign", "SubAssign::sub_assign", "Neg::neg"}


# allocation kinds -> index of the size operand
ALLOC_KINDS = {"Vec::with_capacity": 0, "VecDeque::with_capacity": 0, "String::with_capacity": 0, "BytesMut::with_capacity": 0, "HashMap::with_capacity": 0,
               "HashSet::with_capacity": 0, "Vec::reserve": 1, "Vec::reserve_exact": 1, "VecDeque::reserve": 1, "BytesMut::reserve": 1, "Vec::resize": 1, "vec::from_elem": 1}


def size_from_lengths(e, depth=0):
    """True when e is built only from lengths of existing collections and constants by operations
    that keep it within a constant factor of those lengths: /, -, min, casts, *const, and the
    square of (const * sqrt(length)). Returns 'sqrt' for a square-root-sized value."""
    from .mir import LEN_TAILS
    if depth > 12:
        return False
    tag = e[0]
    if tag == "const":
        return isinstance(e[1], int) and e[1] <= 2 ** 20
    if tag == "call":
        tl = std_tail(e[2])
        if tl in LEN_TAILS:
            return True
        if tl and (tl.endswith("::sqrt") or tl.endswith("::isqrt")):
            return "sqrt" if e[3] and size_from_lengths(e[3][0], depth + 1) else False
        if tl in ("Ord::min", "Into::into", "From::from", "TryInto::try_into", "<impl f64>::ceil", "<impl f64>::floor") or (tl and tl.endswith(("::ceil", "::floor", "::min"))):
            rs = [size_from_lengths(a, depth + 1) for a in e[3]]
            if tl in ("Ord::min",) or (tl and tl.endswith("::min")):
                return any(rs) and (True if any(r is True for r in rs) else "sqrt")
            return rs[0] if rs else False
        return False
    if tag == "cast":
        return size_from_lengths(e[1], depth + 1)
    if tag in ("proj", "part"):
        return size_from_lengths(e[2], depth + 1)
    if tag == "phi":
        rs = [size_from_lengths(a, depth + 1) for a in e[1]]
        return all(rs) and ("sqrt" if all(r == "sqrt" for r in rs) else True)
    if tag == "bin":
        op = e[1]
        a, b = size_from_lengths(e[2], depth + 1), size_from_lengths(e[3], depth + 1)
        if op.startswith(("Div", "Sub", "Rem", "Shr", "BitAnd")):
            return a
        if op.startswith("Mul"):
            if not (a and b):
                return False
            ca, cb = e[2][0] == "const", e[3][0] == "const"
            if ca or cb:
                return b if ca else a
            if a == "sqrt" and b == "sqrt":
                return True
            return False
        return False
    return False


def site_kind(t):
    if t["k"] == "assert":
        ak = t["msg"]["ak"]
        if ak in ASSERT_KINDS:
            op = t["msg"].get("op")
            return ak + (":" + op if op else "")
        return None
    if t["k"] == "call" and "f" in t:
        f = t["f"]
        tl = std_tail(f)
        if tl in PANIC_TAILS:
            if tl in ARITH_TAILS:
                st = t.get("self_ty") or ""
                if re.match(r"^&?(u8|u16|u32|u64|u128|usize|i8|i16|i32|i64|i128|isize|f32|f64)$", st):
                    return None
            return tl
        for g in PANIC_GLOBS:
            if glob(g, f) or glob(g, t.get("rf") or ""):
                return f.split("::", 1)[-1] if f.startswith("core::panicking") else re.sub(r"^.*::([A-Za-z]+::[a-z_0-9]+)$", r"\1", f)
    return None


def norm_expr(s):
    s = re.sub(r"\s+", " ", s)
    return s[:160]


class Site:
    def __init__(self, body, blk, kind, ctx):
        self.body, self.blk, self.kind = body, blk, kind
        t = body.blocks[blk]["t"]
        self.term = t
        self.loc = body.loc(blk)
        self.macro = t.get("x")
        if t["k"] == "assert":
            m = t["msg"]
            ops = [m[k] for k in ("a", "b", "len", "index") if k in m]
            self.opnds = [body.expr_operand(o, 0, blk) for o in ops]
        else:
            self.opnds = [body.expr_operand(a, 0, blk) for a in t["args"]]
        self.text = ", ".join(fmt_expr(o) for o in self.opnds)
        self.module = module_of(body.path)
        self.key = "%s|%s|%s" % (self.module, kind, norm_expr(self.text))


def module_of(path):
    r = root_fn(path)
    r = re.sub(r"::<[^<>]*>", "", r)
    if r.startswith("<"):
        m = re.match(r"^<(.+?) as (.+)>::([A-Za-z_0-9]+)$", r)
        if m:
            return "%s as %s" % (m.group(1).rsplit("::", 1)[0], m.group(2).split("<")[0].rsplit("::", 1)[-1])
    return r.rsplit("::", 2)[0] if r.count("::") >= 2 else r


def enumerate_sites(ctx, cone):
    out = []
    for p, b in sorted(cone.bodies.items()):
        for blk in range(b.n):
            if b.blocks[blk]["cl"]:
                continue
            k = site_kind(b.blocks[blk]["t"])
            if k:
                out.append(Site(b, blk, k, ctx))
    return out


# ---------------------------------------------------------------------------- discharge
INT_BITS = {"u8": 8, "u16": 16, "u32": 32, "u64": 64, "usize": 64, "u128": 128, "i8": 8, "i16": 16, "i32": 32, "i64": 64, "isize": 64, "i128": 128}


def interval(e, depth=0):
    """Sound [lo, hi] of a non-negative integer expression from types, constants and casts;
    None when nothing can be said."""
    if depth > 10:
        return None
    tag = e[0]
    if tag == "const" and isinstance(e[1], int):
        return (e[1], e[1])
    if tag == "call":
        m = re.match(r"^<(usize|u64|u32|u128) as core::convert::From<(u8|u16|u32|bool)>>::from$", e[1]) or \
            re.search(r"<impl core::convert::From<(?P<s>u8|u16|u32|bool)> for (usize|u64|u32|u128)>::from$", e[1])
        if m:
            src = m.groupdict().get("s") or m.group(2)
            return (0, 1 if src == "bool" else 2 ** INT_BITS[src] - 1)
        tl = std_tail(e[2])
        if tl in ("Ord::min", "<impl usize>::min", "<impl u64>::min") and len(e[3]) == 2:
            a, b = interval(e[3][0], depth + 1), interval(e[3][1], depth + 1)
            his = [x[1] for x in (a, b) if x]
            if his:
                return (0, min(his))
        if tl in ("Vec::len", "<impl [T]>::len", "String::len", "<impl str>::len"):
            return (0, 2 ** 63 - 1)
        return None
    if tag == "cast":
        src = interval(e[1], depth + 1)
        ty = e[2]
        if src and ty in INT_BITS and src[1] < 2 ** INT_BITS[ty]:
            return src
        return None
    if tag == "proj" and e[1] == ("0",) and e[2][0] == "bin":
        return interval(e[2], depth + 1)
    if tag == "bin":
        op = e[1].replace("WithOverflow", "")
        a, b = interval(e[2], depth + 1), interval(e[3], depth + 1)
        if op == "Rem" and b and b[1] > 0:
            return (0, b[1] - 1)
        if op == "BitAnd":
            his = [x[1] for x in (a, b) if x]
            if his:
                return (0, min(his))
        if op == "Shr" and a:
            return (0, a[1])
        if op == "Div" and a:
            return (0, a[1])
        if a is None or b is None:
            return None
        if op == "Add":
            return (a[0] + b[0], a[1] + b[1])
        if op == "Mul":
            return (a[0] * b[0], a[1] * b[1])
        if op == "Sub":
            return (max(0, a[0] - b[1]), a[1] - b[0]) if a[0] >= b[1] else None
        return None
    if tag == "phi":
        ivs = [interval(x, depth + 1) for x in e[1]]
        if all(ivs):
            return (min(i[0] for i in ivs), max(i[1] for i in ivs))
        return None
    return None


def const_val(e):
    return e[1] if e[0] == "const" and isinstance(e[1], int) else None


def auto_discharge(site):
    """Return a reason string when a sound local argument shows the site cannot panic."""
    t = site.term
    k = site.kind
    b = site.body
    if site.macro and ("valueset" in site.macro) and k in ("Option::expect", "Option::unwrap"):
        return "D-tracing: field-set iteration generated by the tracing event! macro (as many fields as the macro declared)"
    if t["k"] == "assert":
        m = t["msg"]
        ak = m["ak"]
        if ak in ("DivisionByZero", "RemainderByZero"):
            ce = b.expr_operand(t["cond"], 0, site.blk)
            for n in walk(ce):
                if n[0] == "bin" and n[1] == "Eq":
                    for x, y in ((n[2], n[3]), (n[3], n[2])):
                        if const_val(y) == 0 and const_val(x) not in (None, 0):
                            return "D1: divisor is the non-zero constant %s" % const_val(x)
            return None
        if ak == "BoundsCheck":
            ln, ix = b.expr_operand(m["len"], 0, site.blk), b.expr_operand(m["index"], 0, site.blk)
            if const_val(ln) is not None and const_val(ix) is not None and 0 <= const_val(ix) < const_val(ln):
                return "D2: constant index %d into a fixed array of %d" % (const_val(ix), const_val(ln))
            iv = interval(ix)
            if const_val(ln) is not None and iv and iv[1] < const_val(ln):
                return "D4: index interval %s below the array length %d" % (iv, const_val(ln))
            return None
        if ak == "Overflow":
            op = m["op"]
            a, c = b.expr_operand(m["a"], 0, site.blk), b.expr_operand(m["b"], 0, site.blk)
            if op in ("Shl", "Shr"):
                if const_val(c) is not None and 0 <= const_val(c) <= 7:
                    return "D1: constant shift amount %d (< width of every integer type)" % const_val(c)
                return None
            ia, ib = interval(a), interval(c)
            bits = 64
            ty = a[3] if a[0] == "const" else (c[3] if c[0] == "const" else None)
            if ty in INT_BITS:
                bits = INT_BITS[ty]
            if ia and ib:
                if op == "Add" and ia[1] + ib[1] < 2 ** bits:
                    return "D4: %s + %s cannot exceed %d bits" % (ia, ib, bits)
                if op == "Mul" and ia[1] * ib[1] < 2 ** bits:
                    return "D4: %s * %s cannot exceed %d bits" % (ia, ib, bits)
                if op == "Sub" and ia[0] >= ib[1]:
                    return "D4: %s - %s cannot go below zero" % (ia, ib)
            return None
        return None
    # calls
    args = site.opnds
    if k in ALLOC_KINDS and args:
        size = args[ALLOC_KINDS[k]] if len(args) > ALLOC_KINDS[k] else None
        if size is not None:
            iv = interval(size)
            if iv and iv[1] <= 2 ** 32:
                return "D6: allocation size bounded by %d" % iv[1]
            if size_from_lengths(size):
                return "D6: allocation size is a length of data already in memory, scaled by constants (or (c*sqrt(len))^2)"
    if k in ("<impl [T]>::chunks", "<impl [T]>::chunks_mut", "<impl [T]>::chunks_exact", "<impl [T]>::windows", "Iterator::step_by") and len(args) == 2:
        if const_val(args[1]) not in (None, 0):
            return "D1: constant non-zero size %d" % const_val(args[1])
    if k in ("Index::index", "IndexMut::index_mut") and len(args) == 2:
        ix = args[1]
        if ix[0] == "agg" and str(ix[1]).endswith("RangeFull"):
            return "D1: full-range slice never panics"
        st = t.get("self_ty") or ""
        m = re.match(r"^\[.*; (\d+)\]$", st)
        if m and ix[0] == "agg":
            n = int(m.group(1))
            ivs = [interval(o) for o in ix[3]]
            vals = [iv[1] if iv and iv[0] == iv[1] else None for iv in ivs]
            if all(v is not None and v <= n for v in vals) and (len(vals) < 2 or vals[0] <= vals[1]):
                return "D2: constant range %s into a fixed array of %d" % (vals, n)
    return None


def load_audit(path):
    if not os.path.exists(path):
        return {}
    out = {}
    for e in json.load(open(path)):
        out[e["key"]] = e
    return out


def stable_key(site):
    k = site.key
    k = re.sub(r"alloc\d+", "alloc#", k)
    k = re.sub(r"promoted\[\d+\]", "promoted[#]", k)
    k = re.sub(r"\{closure#\d+\}", "{closure}", k)
    return k
