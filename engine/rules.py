"""Rule engines G (must-check), O (ordering), W (who-may), D (dependence), K (constants) and the
run context that accumulates obligations, samples and violations for the evidence file."""
import json
import os
import re
import time

from . import mir
from .mir import Body, call_matches, callee_of, fmt_expr, glob, has_all, has_leaf, leaves, walk

from .mir import is_tail, std_tail, CMP_TAILS, TRANSPARENT_TAILS, RESULT_TAILS


def is_combinator(e):
    return is_tail(e[2], RESULT_TAILS) or is_tail(e[2], TRANSPARENT_TAILS)


# ---------------------------------------------------------------------------- specs
class Has:
    """Joint guard spec: the branch condition's slice contains all the given leaf patterns.
    A pattern may be a list of alternatives."""

    def __init__(self, *pats, name=None, within=None, awaits=False):
        self.pats = pats
        # awaits=True: the guard asked for IS the completion of an `.await` (the Ready edge of the
        # poll-state switch); otherwise poll-state switches are never guards
        self.awaits = awaits
        # patterns that must be matched by the conditions of the branch edges that dominate the
        # guard (the other conjuncts of a compound `a && b` condition / the enclosing match arm)
        self.within = within
        self.name = name or "has(%s)" % ", ".join(map(str, pats))

    def call_pats(self):
        out = []
        for p in self.pats:
            for q in p if isinstance(p, (list, tuple)) else [p]:
                if q.startswith("call:"):
                    out.append(q)
        return out

    def matches_expr(self, e, ctx, env=None):
        ls = ctx.leaves(e, env)
        return has_all(ls, self.pats)


class Direct:
    """The branch condition is *directly* the result of a call matching one of `calls` (seen
    only through negation, `?`, Result/Option combinators and transparent wrappers - not through
    any other function), whose receiver/first argument's slice matches `args`."""

    def __init__(self, calls, args=(), name=None):
        self.calls = calls
        self.args = args
        self.name = name or "direct(%s on %s)" % (calls, args)

    def call_pats(self):
        return []

    def matches_expr(self, e, ctx, env=None):
        for node, _neg in bool_nodes(e):
            if node[0] == "call" and any(glob(g, node[1]) or glob(g, node[2]) for g in self.calls):
                if not self.args or (node[3] and has_all(ctx.leaves(node[3][0], env), self.args)):
                    return True
        return False


class BoolIs:
    """The branch tests the *boolean value* returned by a call matching one of `calls` (seen through
    negation, `?`, casts and phi - but not through a discriminant: the `?` on a `Result<bool>` is a
    different question) and the passing edge must be the one on which that value equals `value`.
    Used where the property needs the predicate to hold, not merely to be consulted
    (`sampled.contains(h) || daser.want_to_prune(h)?`)."""

    def __init__(self, calls, value=True, args=(), name=None):
        self.calls = calls if isinstance(calls, (list, tuple)) else [calls]
        self.value = value
        self.args = args
        self.name = name or "bool(%s) is %s" % (self.calls, value)

    def call_pats(self):
        return []

    def find(self, e, ctx, env=None, neg=False, depth=0):
        """None, or the negation parity under which the matching call's value is tested."""
        if depth > 10:
            return None
        tag = e[0]
        if tag == "call":
            if any(glob(g, e[1]) or glob(g, e[2]) for g in self.calls):
                if not self.args or (e[3] and has_all(ctx.leaves(e[3][0], env), self.args)):
                    return neg
            tl = std_tail(e[2])
            if tl in ("Try::branch",) or tl in TRANSPARENT_TAILS:
                return self.find(e[3][0], ctx, env, neg, depth + 1) if e[3] else None
            if tl == "Not::not":
                return self.find(e[3][0], ctx, env, not neg, depth + 1) if e[3] else None
            return None
        if tag == "un" and e[1] == "Not":
            return self.find(e[2], ctx, env, not neg, depth + 1)
        if tag == "cast":
            return self.find(e[1], ctx, env, neg, depth + 1)
        if tag in ("proj", "part"):
            return self.find(e[2], ctx, env, neg, depth + 1)
        if tag == "phi":
            rs = [self.find(a, ctx, env, neg, depth + 1) for a in e[1]]
            rs = [r for r in rs if r is not None]
            return rs[0] if rs and all(r == rs[0] for r in rs) else None
        return None

    def matches_expr(self, e, ctx, env=None):
        return self.find(e, ctx, env) is not None


class AnyOf:
    """A branch matches when it matches any of the given specs."""

    def __init__(self, *specs, name=None):
        self.specs = specs
        self.name = name or " | ".join(s.name for s in specs)

    def call_pats(self):
        return []

    def matches_expr(self, e, ctx, env=None):
        return any(s.matches_expr(e, ctx, env) for s in self.specs)


class Cmp:
    """Operand-separated comparison: the branch condition is (the result of) a comparison one
    of whose operands derives from every pattern in A and the other from every pattern in B.
    pass_op: if given, the comparison that must hold on the passing edge, normalised as
    'A <op> B' (e.g. 'Eq', 'Gt')."""

    def __init__(self, A, B, pass_op=None, name=None, local_only=False):
        self.A = A if isinstance(A, (list, tuple)) else [A]
        self.B = B if isinstance(B, (list, tuple)) else [B]
        self.pass_op = pass_op
        # local_only: the comparison must be made in this function; a callee that makes a comparison of
        # the same shape (about ITS OWN argument) does not count (no helper following)
        self.local_only = local_only
        self.name = name or "cmp(%s ; %s)" % (self.A, self.B)

    def call_pats(self):
        return []

    def find(self, e, ctx, env=None):
        """Return list of (op_when_true, swapped) for comparison nodes in e matching A/B."""
        out = []
        for node, neg in bool_nodes(e):
            op, a, b = comparison_of(node)
            if op is None:
                continue
            la, lb = ctx.leaves(a, env), ctx.leaves(b, env)
            if has_all(la, self.A) and has_all(lb, self.B):
                out.append((mir.NEG[op] if neg else op))
            elif has_all(lb, self.A) and has_all(la, self.B):
                o = mir.SWAP[op]
                out.append((mir.NEG[o] if neg else o))
        return out

    def matches_expr(self, e, ctx, env=None):
        return bool(self.find(e, ctx, env))


def const_values(ctx, pat):
    """Evaluated integer values of the named constants matching the glob."""
    cache = ctx._leaf_memo.setdefault(("constvals",), {})
    if pat not in cache:
        out = []
        for c in ctx.facts.names:
            for k in ctx.facts.crates[c].meta["consts"]:
                if isinstance(k.get("v"), int) and glob(pat, k["path"]):
                    out.append(k["v"])
        cache[pat] = out
    return cache[pat]


def is_poll_switch(e):
    """switchInt(discriminant(<F as Future>::poll(..))) - the state test of an await loop."""
    if e[0] != "discr":
        return False
    x = e[1]
    for _ in range(4):
        if x[0] in ("proj", "part"):
            x = x[2]
        elif x[0] == "cast":
            x = x[1]
        else:
            break
    return x[0] == "call" and std_tail(x[2]) in ("Future::poll", "Stream::poll_next", "FusedFuture::poll") and True


def bool_nodes(e, neg=False, depth=0, seen=None):
    """Yield (node, negated) for nodes that determine the boolean value e through Not / casts /
    phi / Try::branch / discriminant / transparent wrappers."""
    if seen is None:
        seen = set()
    if id(e) in seen or depth > 12:
        return
    seen.add(id(e))
    tag = e[0]
    yield (e, neg)
    if tag == "un" and e[1] == "Not":
        yield from bool_nodes(e[2], not neg, depth + 1, seen)
    elif tag in ("cast",):
        yield from bool_nodes(e[1], neg, depth + 1, seen)
    elif tag == "discr":
        yield from bool_nodes(e[1], neg, depth + 1, seen)
    elif tag == "phi":
        for a in e[1]:
            yield from bool_nodes(a, neg, depth + 1, seen)
    elif tag in ("proj", "part"):
        yield from bool_nodes(e[2], neg, depth + 1, seen)
    elif tag == "call":
        tl = std_tail(e[2])
        if tl == "Not::not":
            yield from bool_nodes(e[3][0], not neg, depth + 1, seen)
        elif is_combinator(e):
            if e[3]:
                yield from bool_nodes(e[3][0], neg, depth + 1, seen)
        elif tl in ("Option::is_some", "Result::is_ok") and e[3]:
            yield from bool_nodes(e[3][0], neg, depth + 1, seen)
        elif tl in ("Option::is_none", "Result::is_err") and e[3]:
            yield from bool_nodes(e[3][0], not neg, depth + 1, seen)


def comparison_of(node):
    """(op, a, b) when node is a comparison producing 'a op b' when true."""
    tag = node[0]
    if tag == "bin" and node[1] in mir.CMP_BIN:
        return node[1], node[2], node[3]
    if tag == "call":
        tl = std_tail(node[2])
        if tl in CMP_TAILS and len(node[3]) >= 2:
            return CMP_TAILS[tl], node[3][0], node[3][1]
    return None, None, None


# ---------------------------------------------------------------------------- exits
def classify_expr(e, depth=0):
    tag = e[0]
    if depth > 8:
        return "may"
    if tag == "agg":
        if e[1] in ("core::result::Result", "core::option::Option", "core::ops::control_flow::ControlFlow"):
            if e[2] in ("Ok", "Some"):
                return "accept"
            if e[2] in ("Err", "None"):
                return "reject"
        return "accept"
    if tag == "const":
        if e[3] == "bool":
            return "accept" if e[1] else "reject"
        return "accept"
    if tag == "call":
        if std_tail(e[2]) == "FromResidual::from_residual":
            return "reject"
        return "may"
    if tag == "phi":
        ks = {classify_expr(a, depth + 1) for a in e[1]}
        if ks == {"reject"}:
            return "reject"
        if ks == {"accept"}:
            return "accept"
        return "may"
    if tag in ("cycle", "unknown", "lazy"):
        return "may"
    return "may"


def exit_sites(body):
    """Sites that assign the return place: list of dict(block, kind, expr, loc)."""
    out = []
    for b in range(body.n):
        if body.blocks[b]["cl"]:
            continue
        for i, s in enumerate(body.stmts(b)):
            if s["d"]["l"] == 0 and not s["d"].get("p"):
                e = body.expr_rvalue(s["r"], (), b, 0)
                out.append(dict(block=b, kind=classify_expr(e), expr=e, loc=body.loc(b, i)))
        t = body.blocks[b]["t"]
        if t["k"] == "call" and t["dest"]["l"] == 0 and not t["dest"].get("p"):
            e = body.expr_call(t, b, 0)
            out.append(dict(block=b, kind=classify_expr(e), expr=e, loc=body.loc(b)))
    return out


def result_chain(e, depth=0):
    """Call nodes whose Err/None is propagated unchanged into value e."""
    out = []
    while e is not None and depth < 12:
        depth += 1
        tag = e[0]
        if tag == "call":
            out.append(e)
            if is_combinator(e) and e[3]:
                e = e[3][0]
                continue
            return out
        if tag in ("proj", "part"):
            e = e[2]
            continue
        if tag == "cast":
            e = e[1]
            continue
        if tag == "phi":
            for a in e[1]:
                out += result_chain(a, depth)
            return out
        return out
    return out


# ---------------------------------------------------------------------------- context
class Violation(Exception):
    pass


class Ctx:
    def __init__(self, prop, facts, tier="quick"):
        self.prop = prop
        self.facts = facts
        self.tier = tier
        self.t0 = time.time()
        self.obligations = 0
        self.discharged = 0
        self.evaluations = 0
        self.samples = []
        self.violations = []
        self.known = []
        self.sites = set()
        self.functions = set()
        self.notes = []
        self._bodies = {}
        self._leaf_memo = {}

    # -- facts access
    def fn(self, path):
        b = self._bodies.get(path)
        if b is None:
            raw = self.facts.body(path)
            if raw is None:
                return None
            b = Body(raw)
            self._bodies[path] = b
        return b

    def main_body(self, path):
        """The body that holds the function's code: for `async fn` and #[async_trait]
        methods the nested coroutine."""
        b = self.fn(path)
        if b is None:
            return None
        cur = b
        for _ in range(3):
            inner = None
            wrapper = cur.n <= 12 or bool(cur.call_sites(["tracing::Instrument::instrument", "tracing::instrument::Instrument::instrument"]))
            if wrapper:
                for blk in range(cur.n):
                    for s in cur.stmts(blk):
                        r = s["r"]
                        if r["k"] == "agg" and r.get("ak") == "coroutine" and r["def"].startswith(cur.path + "::{closure#"):
                            inner = r["def"]
            if inner and self.fn(inner) is not None:
                cur = self.fn(inner)
            else:
                break
        return cur

    def leaves(self, e, env=None):
        k = id(e)
        v = self._leaf_memo.get(k)
        if v is None:
            v = (e, leaves(e, self))
            self._leaf_memo[k] = v
        if env is None:
            return v[1]
        return subst_leaves(v[1], env)

    # -- bookkeeping
    def anchor(self, path, main=True):
        b = self.main_body(path) if main else self.fn(path)
        if b is None:
            self.violate("anchor-missing", path, "anchor function `%s` no longer exists" % path, key="anchor-missing|" + path)
            return None
        self.functions.add(b.path)
        return b

    def ok(self, rule, fn, what, site=None, detail=None):
        self.obligations += 1
        self.discharged += 1
        if site:
            self.sites.add((fn, site))
        if len(self.samples) < 40:
            s = dict(rule=rule, function=short(fn), result="holds", what=what)
            if site:
                s["site"] = site
            if detail:
                s["detail"] = detail
            self.samples.append(s)

    def violate(self, rule, fn, what, site=None, key=None, path=None):
        self.obligations += 1
        k = key or "%s|%s|%s" % (rule, fn, what)
        v = dict(rule=rule, function=fn, what=what, site=site, key=k)
        if path:
            v["path"] = path
        self.violations.append(v)

    def check(self, cond, rule, fn, what, site=None, key=None, path=None, detail=None):
        if cond:
            self.ok(rule, fn, what, site, detail)
        else:
            self.violate(rule, fn, what, site, key, path)
        return cond

    def floor(self, rule, what, count, minimum):
        self.check(count >= minimum, rule, "-", "%s: found %d, floor %d" % (what, count, minimum), key="floor|%s|%s" % (rule, what))


def subst_leaves(ls, env):
    """Translate a callee's leaves into the caller's: callee `aK.rest` -> caller leaves of
    argument K (arg leaves get `.rest` appended)."""
    out = set()
    for lf in ls:
        m = re.match(r"^(len:)?a(\d+)((?:\..*)?)$", lf)
        if m and int(m.group(2)) in env:
            for c in env[int(m.group(2))]:
                if re.match(r"^[A-Za-z_][A-Za-z_0-9]*(\.|$)", c):
                    out.add((m.group(1) or "") + c + m.group(3))
                else:
                    out.add(c)
        elif m:
            out.add("callee_" + lf)
        else:
            out.add(lf)
    return out


def short(p):
    p = re.sub(r"^(celestia_types|lumina_node|celestia_grpc|lumina_utils|celestia_proto)::", "", p)
    return p


# ---------------------------------------------------------------------------- engine G
def infeasible_edges(body):
    """Edges that can never be taken: the Continue arm of `Err(..)?` / `None?` (a `?` applied
    to a value that is a constant Err/None on every reaching definition)."""
    memo = getattr(body, "_infeasible", None)
    if memo is not None:
        return memo
    out = set()
    for b in range(body.n):
        t = body.blocks[b]["t"]
        if body.blocks[b]["cl"] or t["k"] != "switch":
            continue
        e = body.switch_discr_expr(b)
        if e[0] != "discr":
            continue
        c = e[1]
        if c[0] == "call" and std_tail(c[2]) == "Try::branch" and c[3] and classify_expr(c[3][0]) == "reject":
            for v, tb in t["targets"]:
                if v == 0:
                    out.add((b, tb))
        elif c[0] == "agg" and c[1] in ("core::option::Option", "core::result::Result") and c[2] in ("None", "Some", "Ok", "Err"):
            # discriminant of a value that is a literal variant (e.g. the `None::<T>` prologue
            # emitted by #[async_trait]): only the matching arm is feasible
            idx = {"None": 0, "Some": 1, "Ok": 0, "Err": 1}[c[2]]
            vals = [v for v, _ in t["targets"]]
            for v, tb in t["targets"]:
                if v != idx:
                    out.add((b, tb))
            if idx in vals:
                out.add((b, t["otherwise"]))
    body._infeasible = out
    return out


class Guards:
    """Guard analysis of one body relative to a set of target blocks."""

    def __init__(self, ctx, body, targets=None, cut_back_edges=True, start=None, stop_blocks=(), env=None, depth=0):
        self.ctx = ctx
        self.body = body
        self.env = env
        self.depth = depth
        self.exits = exit_sites(body)
        if targets is None:
            targets = [x["block"] for x in self.exits if x["kind"] in ("accept", "may")]
        self.targets = set(targets)
        self.start = [0] if start is None else list(start)
        self.removed = set(infeasible_edges(body))
        if cut_back_edges:
            for b in body.reachable_from([0]):
                for d in body.succ(b):
                    if body.dominates(d, b):
                        self.removed.add((b, d))
        self.stop_blocks = set(stop_blocks)
        self.R = body.can_reach(self.targets, self.removed, self.stop_blocks)
        ret = [b for b in range(body.n) if body.blocks[b]["t"]["k"] in ("return", "coroutine_drop") and not body.blocks[b]["cl"]]
        # also loop back-edge sources count as a normal continuation when back edges are cut
        cont = set(ret) | {b for (b, d) in self.removed}
        self.N = body.can_reach(cont, self.removed)
        self.switches = []
        reach = body.reachable_from(self.start, self.removed, self.stop_blocks)
        self.reach = reach
        for b in sorted(reach):
            t = body.blocks[b]["t"]
            if t["k"] != "switch":
                continue
            edges = body.out_edges(b)
            failing = [(d, l) for d, l in edges if d not in self.R and d in self.N]
            passing = [(d, l) for d, l in edges if d in self.R]
            if failing and passing:
                self.switches.append((b, failing, passing))

    def spec_match(self, b, spec):
        """None if switch b's condition does not match spec; else info dict (ops for Cmp)."""
        e = self.body.switch_discr_expr(b)
        if is_poll_switch(e) and not getattr(spec, "awaits", False):
            # the Ready/Pending test of an `.await`: its Pending edge only re-polls, it decides nothing
            return None
        if isinstance(spec, AnyOf):
            # each alternative keeps its own polarity / operand semantics
            for alt in spec.specs:
                info = self.spec_match(b, alt)
                if info is not None:
                    info = dict(info)
                    info.setdefault("alt", alt)
                    return info
            return None
        if isinstance(spec, Cmp):
            ops = spec.find(e, self.ctx, self.env)
            if ops:
                return dict(ops=ops)
            # `match x { 0 => .., _ => .. }`: a switch on the integer itself is the comparison `x == value`
            t = self.body.blocks[b]["t"]
            if t.get("dty") not in (None, "bool") and e[0] != "discr":
                for A, B in ((spec.A, spec.B), (spec.B, spec.A)):
                    if len(B) != 1 or not isinstance(B[0], str) or not A or not has_all(self.ctx.leaves(e, self.env), A):
                        continue
                    vals = []
                    if B[0].startswith("lit:") and B[0][4:].lstrip("-").isdigit():
                        vals = [int(B[0][4:])]
                    elif B[0].startswith("const:"):
                        # `match x.len() { SOME_CONST => .. }`: the arm value is the evaluated constant
                        vals = const_values(self.ctx, B[0][6:])
                    for v in vals:
                        if v in [tv for tv, _ in t["targets"]]:
                            return dict(intswitch=v)
            if self.via_callee(e, spec):
                return dict(via_callee=True)
            return None
        if isinstance(spec, BoolIs):
            ng = spec.find(e, self.ctx, self.env)
            if ng is None or self.body.blocks[b]["t"].get("dty") != "bool":
                return None
            return dict(boolis_neg=ng)
        if spec.matches_expr(e, self.ctx, self.env):
            if getattr(spec, "within", None):
                ls = set()
                for s2, lab, d in self.body.edge_conditions(b):
                    ls |= self.ctx.leaves(self.body.switch_discr_expr(s2), self.env)
                if not has_all(ls, spec.within):
                    return None
            return {}
        if self.via_callee(e, spec):
            return dict(via_callee=True)
        return None

    def guard_blocks(self, spec):
        """Guards for spec -> list of (block, passing_edges, info). A matching switch is a guard
        when one of its edges cannot reach a target except through (the passing edge of)
        another guard - the classic case being an edge that only rejects. Computed as a
        fixpoint so that `a || b` (the false edge of `a` leads to the target only via `b`)
        is recognised while `if a { log }` (both edges reach the target freely) is not."""
        cands = {}
        for b in sorted(self.reach):
            if self.body.blocks[b]["t"]["k"] != "switch":
                continue
            info = self.spec_match(b, spec)
            if info is not None:
                cands[b] = info
        removed = set(self.removed)
        guards = {}
        changed = True
        while changed:
            changed = False
            R = self.body.can_reach(self.targets, removed, self.stop_blocks)
            for b, info in cands.items():
                if b in guards:
                    continue
                edges = self.body.out_edges(b)
                failing = [(d, l) for d, l in edges if d not in R and d in self.N]
                passing = [(d, l) for d, l in edges if d in R]
                if not (failing and passing):
                    continue
                gspec = spec
                spec = info.get("alt", spec)
                if isinstance(spec, Cmp) and spec.pass_op and info.get("ops"):
                    okp = True
                    t = self.body.blocks[b]["t"]
                    for d, lab in passing:
                        truth = edge_truth(t, lab)
                        if truth is None:
                            okp = False
                            break
                        for op in info["ops"]:
                            eff = op if truth else mir.NEG[op]
                            if eff != spec.pass_op:
                                okp = False
                    if not okp:
                        guards[b] = ([], dict(bad_polarity=True, ops=info["ops"]))
                        spec = gspec
                        continue
                if isinstance(spec, Cmp) and spec.pass_op and "intswitch" in info:
                    okp = all(("Eq" if lab == info["intswitch"] else "Ne") == spec.pass_op for d, lab in passing)
                    if not okp:
                        guards[b] = ([], dict(bad_polarity=True, ops=["switch on the value"]))
                        spec = gspec
                        continue
                if isinstance(spec, BoolIs):
                    t = self.body.blocks[b]["t"]
                    okp = all(edge_truth(t, lab) is not None and (edge_truth(t, lab) != info["boolis_neg"]) == spec.value for d, lab in passing)
                    if not okp:
                        guards[b] = ([], dict(bad_polarity=True))
                        spec = gspec
                        continue
                spec = gspec
                guards[b] = (passing, info)
                for d, _ in passing:
                    removed.add((b, d))
                changed = True
        return [(b, p, i) for b, (p, i) in sorted(guards.items())]

    def via_callee(self, e, spec):
        if getattr(spec, "local_only", False):
            return False
        if isinstance(spec, AnyOf):
            # alternatives that must be met in this very function are not looked for in callees
            alts = [a for a in spec.specs if not getattr(a, "local_only", False)]
            if not alts:
                return False
            if len(alts) != len(spec.specs):
                spec = AnyOf(*alts, name=spec.name + " [followable alternatives]")
        return self._via_callee(e, spec)

    def _via_callee(self, e, spec):
        """Helper following: the branch honours the result of a call to a workspace-local
        function inside which (bounded depth) every accepting path passes a guard for spec,
        with the callee's parameters mapped back to this caller's argument slices."""
        if self.depth >= 3:
            return False
        for c in result_chain_through_discr(e):
            callee = c[1]
            cb = self.ctx.main_body(callee)
            if cb is None or cb.path == self.body.path and self.depth >= 1:
                continue
            env = {}
            for i, a in enumerate(c[3]):
                env[i + 1] = self.ctx.leaves(a, self.env)
            if establishes(self.ctx, cb, spec, env, self.depth + 1):
                return True
        return False

    def unguarded_path(self, spec):
        """None if every path start -> target passes a guard for spec; else a block path."""
        gs = self.guard_blocks(spec)
        removed = set(self.removed)
        for b, passing, info in gs:
            for d, _ in passing:
                removed.add((b, d))
        targets = set(self.targets)
        # may-accept sites whose value *is* the result of a matching call are guarded by it
        cps = spec.call_pats() if hasattr(spec, "call_pats") else []
        if cps:
            for x in self.exits:
                if x["kind"] == "may" and x["block"] in targets:
                    chain = result_chain(x["expr"])
                    for c in chain:
                        if any(glob(p[5:], c[1]) or glob(p[5:], c[2]) for p in cps) and spec.matches_expr(x["expr"], self.ctx, self.env):
                            targets.discard(x["block"])
        # may-accept sites that return the result of a local helper which itself establishes spec
        for x in self.exits:
            if x["kind"] == "may" and x["block"] in targets and self.via_callee(x["expr"], spec):
                targets.discard(x["block"])
        path = self.body.path_to(self.start, targets, removed, self.stop_blocks)
        return path, gs


def result_chain_through_discr(e):
    out = []
    for node, _neg in bool_nodes(e):
        if node[0] == "call":
            out.append(node)
    return out


def establishes(ctx, body, spec, env, depth):
    key = ("est", body.path, spec.name, tuple(sorted((k, tuple(sorted(v))) for k, v in (env or {}).items())))
    memo = ctx._leaf_memo
    if key in memo:
        return memo[key]
    memo[key] = False
    g = Guards(ctx, body, env=env, depth=depth)
    if not g.targets:
        return False
    path, _ = g.unguarded_path(spec)
    memo[key] = path is None
    return path is None


def edge_truth(term, label):
    """For a switch on a bool: True/False for the edge with this label, else None."""
    if term.get("dty") != "bool":
        return None
    vals = [v for v, _ in term["targets"]]
    if label == "otherwise":
        if vals == [0]:
            return True
        if vals == [1]:
            return False
        return None
    return bool(label)


def loop_heads(ctx, body, iter_pats):
    """Blocks calling Iterator::next on an iterator whose slice matches iter_pats ->
    list of (next_block, body_entry_block)."""
    out = []
    for b in body.call_sites(["*::next"]):
        t = body.blocks[b]["t"]
        if "Iterator" not in (t.get("trait") or "") and "Stream" not in (t.get("trait") or ""):
            continue
        e = body.expr_call(t, b, 0)
        if not has_all(ctx.leaves(e), iter_pats):
            continue
        # the switch on the discriminant of the Option returned by next
        nxt = t.get("to")
        seen = 0
        while nxt is not None and body.blocks[nxt]["t"]["k"] != "switch" and seen < 4:
            es = body.out_edges(nxt)
            nxt = es[0][0] if len(es) == 1 else None
            seen += 1
        if nxt is None:
            continue
        st = body.blocks[nxt]["t"]
        some = [tb for v, tb in st["targets"] if v == 1]
        if some:
            out.append((b, some[0]))
    return out


def per_iteration(ctx, body, iter_pats, spec, rule, what, skip=None, must_dominate=True, nonfirst=None):
    """Within every iteration of the loop over an iterator derived from iter_pats, the
    iteration cannot complete (reach the back edge or an accepting exit) without passing a
    guard for spec."""
    heads = loop_heads(ctx, body, iter_pats)
    if not heads:
        ctx.violate(rule, body.path, "%s: no loop over %s found" % (what, iter_pats), key="%s|%s|no-loop" % (rule, body.path))
        return False
    acc = [x["block"] for x in exit_sites(body) if x["kind"] in ("accept", "may")]
    fails = []
    for nb, entry in heads:
        back = set()
        for b in body.reachable_from([entry]):
            for d in body.succ(b):
                if d == nb or (body.dominates(d, b) and body.dominates(d, nb)):
                    back.add(b)
        starts = [entry]
        if skip is not None:
            # elements the property does not speak about (e.g. absent `None` entries): the
            # iteration proper starts on the non-skipping edge of the element test
            region = body.reachable_from([entry], removed_edges={(b, d) for b in back for d in body.succ(b)})
            for sb in sorted(region):
                t = body.blocks[sb]["t"]
                if t["k"] != "switch" or not skip.matches_expr(body.switch_discr_expr(sb), ctx):
                    continue
                keep = []
                for d, lab in body.out_edges(sb):
                    # a skipping edge reaches the back edge without any call
                    cur, steps, direct = d, 0, False
                    while steps < 6:
                        if cur in back or cur == nb:
                            direct = True
                            break
                        tt = body.blocks[cur]["t"]
                        if tt["k"] not in ("goto", "drop") :
                            break
                        cur = body.out_edges(cur)[0][0]
                        steps += 1
                    if not direct:
                        keep.append(d)
                if keep and len(keep) < len(body.out_edges(sb)):
                    starts = keep
                    break
        if nonfirst is not None:
            # the obligation speaks about every element but the first: the iteration proper starts
            # on the `index != 0` / `index > 0` edge of the test of the enumeration index against 0
            region = body.reachable_from([entry], removed_edges={(b, d) for b in back for d in body.succ(b)})
            for sb in sorted(region):
                t = body.blocks[sb]["t"]
                if t["k"] != "switch":
                    continue
                ops = nonfirst.find(body.switch_discr_expr(sb), ctx, None)
                if not ops:
                    continue
                keep = []
                for d, lab in body.out_edges(sb):
                    truth = edge_truth(t, lab)
                    if truth is None:
                        continue
                    if all((op if truth else mir.NEG[op]) in ("Ne", "Gt") for op in ops):
                        keep.append(d)
                if keep:
                    starts = keep
                    break
        g = Guards(ctx, body, targets=list(back) + acc, cut_back_edges=True, start=starts)
        ctx.evaluations += len(g.switches)
        path, gs = g.unguarded_path(spec)
        # the loop must also lie on every path to an accepting exit
        on_all = (all(body.dominates(nb, a) for a in acc) if acc else True) or not must_dominate
        if path is None and on_all:
            ctx.ok(rule, body.path, what, site=body.loc(nb), detail=dict(loop=body.loc(nb), guards=[body.loc(b) for b, _, _ in gs]))
            return True
        fails.append((nb, path, on_all))
    nb, path, on_all = fails[0]
    rp = body.render_path(path) if path else []
    why = "an iteration can complete without this check" if path else "the checking loop can be bypassed on the way to an accepting exit"
    ctx.violate(rule, body.path, "%s: %s" % (what, why), site=body.loc(nb), key="%s|%s|iter" % (rule, body.path), path=rp)
    return False


def require_guard(ctx, body, spec, rule, targets=None, cut_back_edges=True, start=None, what=None, min_guards=1):
    """Rule: every path from entry (or start) to every accepting site (or target) passes the
    passing edge of a guard matching spec."""
    g = Guards(ctx, body, targets, cut_back_edges, start)
    ctx.evaluations += len(g.switches)
    what = what or spec.name
    if not g.targets:
        ctx.violate(rule, body.path, "%s: no accepting site / target found (anchor shape changed)" % what, key="%s|%s|no-target" % (rule, body.path))
        return False
    path, gs = g.unguarded_path(spec)
    bad = [x for x in gs if x[2].get("bad_polarity")]
    if path is None:
        sites = [body.loc(b) for b, p, i in gs if not i.get("bad_polarity")]
        ctx.ok(rule, body.path, what, site=sites[0] if sites else None, detail=dict(guards=sites, accept_sites=len(g.targets)))
        return True
    if bad and path is not None:
        b = bad[0][0]
        ctx.violate(rule, body.path, "%s: comparison at %s has the wrong strictness/polarity on its passing edge (%s)" % (what, body.loc(b), bad[0][2].get("ops", "boolean predicate")), site=body.loc(b), key="%s|%s|polarity" % (rule, body.path))
        return False
    rp = body.render_path(path) if path else []
    ctx.violate(
        rule,
        body.path,
        "%s: an accepting exit is reachable without this check" % what,
        site=rp[-1] if rp else None,
        key="%s|%s|unguarded" % (rule, body.path),
        path=rp,
    )
    return False


# ---------------------------------------------------------------------------- engine O
def blocks_calling(body, pats):
    return body.call_sites(pats)


def precedes(ctx, body, a_blocks, b_blocks, rule, what, checked_spec=None):
    """Every path entry -> B passes the continuing edge of some A (a call block). With
    checked_spec, additionally A's result must be honoured: every path to B passes a guard
    matching checked_spec."""
    ctx.evaluations += 1
    if not a_blocks or not b_blocks:
        ctx.violate(rule, body.path, "%s: site set empty (A=%d, B=%d)" % (what, len(a_blocks), len(b_blocks)), key="%s|%s|empty" % (rule, body.path))
        return False
    removed = set()
    for a in a_blocks:
        for d, _ in body.out_edges(a):
            removed.add((a, d))
    path = body.path_to([0], set(b_blocks) - set(a_blocks), removed)
    if path is not None:
        rp = body.render_path(path)
        ctx.violate(rule, body.path, "%s: reachable without the required predecessor" % what, site=rp[-1] if rp else None, key="%s|%s|order" % (rule, body.path), path=rp)
        return False
    if checked_spec is not None:
        return require_guard(ctx, body, checked_spec, rule, targets=b_blocks, what=what)
    ctx.ok(rule, body.path, what, site=body.loc(a_blocks[0]), detail=dict(first=[body.loc(a) for a in a_blocks], then=[body.loc(b) for b in b_blocks]))
    return True


def never_after(ctx, body, a_blocks, b_blocks, rule, what, per_pair=False, b_desc=None):
    """No path from any A block to any B block. With per_pair, every (A-kind, B) pair that is
    connected is its own violation (keyed by the callee of A and a description of B), so a
    known finding about one pair does not hide a different one."""
    ctx.evaluations += 1
    bad = []
    for a in a_blocks:
        starts = [d for d, _ in body.out_edges(a)]
        reach = body.reachable_from(starts)
        for bb in b_blocks:
            if bb in reach:
                bad.append((a, bb))
    if not bad:
        ctx.ok(rule, body.path, what, detail=dict(a=[body.loc(a) for a in a_blocks][:6], b=[body.loc(b) for b in b_blocks][:6]))
        return True
    if not per_pair:
        a, bb = bad[0]
        path = body.path_to([d for d, _ in body.out_edges(a)], {bb})
        rp = body.render_path(path) if path else []
        ctx.violate(rule, body.path, "%s" % what, site=rp[-1] if rp else None, key="%s|%s|after" % (rule, body.path), path=rp)
        return False
    seen = set()
    for a, bb in bad:
        t = body.blocks[a]["t"]
        asig = re.sub(r"<[^<>]*>", "", callee_of(t)).split("::")[-1] if t["k"] == "call" else "assign"
        recv = ""
        if t["k"] == "call" and t["args"]:
            ls = sorted(l for l in ctx.leaves(body.expr_operand(t["args"][0], 0, a)) if re.match(r"^(self|a1)\.", l))
            recv = ls[0] if ls else ""
        bsig = b_desc(bb) if b_desc else body.loc(bb)
        k = (asig, recv, bsig)
        if k in seen:
            continue
        seen.add(k)
        ctx.violate(rule, body.path, "%s: %s of %s precedes the rejecting exit %s" % (what, asig, recv or "store state", bsig), site=body.loc(bb), key="%s|%s|after|%s|%s|%s" % (rule, body.path, asig, recv, bsig))
    return False


# ---------------------------------------------------------------------------- engine W
def all_call_sites(ctx, crates, pats, path_filter=None):
    """[(body, block)] over all bodies of the given crates."""
    out = []
    for c in crates:
        for p in ctx.facts.crates[c].order:
            if path_filter and not path_filter(p):
                continue
            b = ctx.fn(p)
            for blk in b.call_sites(pats):
                out.append((b, blk))
    return out


def all_aggregate_sites(ctx, crates, adt_glob, path_filter=None):
    out = []
    for c in crates:
        for p in ctx.facts.crates[c].order:
            if path_filter and not path_filter(p):
                continue
            b = ctx.fn(p)
            for blk in range(b.n):
                if b.blocks[blk]["cl"]:
                    continue
                for i, s in enumerate(b.stmts(blk)):
                    r = s["r"]
                    if r["k"] == "agg" and r.get("ak") == "adt" and glob(adt_glob, r["adt"]):
                        out.append((b, blk, i, r))
    return out


def root_fn(path):
    """Strip nested closure components: a::b::{closure#0}::{closure#1} -> a::b"""
    return re.sub(r"(::\{[a-z_]+#\d+\})+$", "", path)


# ---------------------------------------------------------------------------- arms / regions
def switches_on(ctx, body, pats, discr_only=False):
    """Switch blocks whose condition's slice matches all pats."""
    out = []
    for b in sorted(body.reachable_from([0])):
        t = body.blocks[b]["t"]
        if t["k"] != "switch":
            continue
        e = body.switch_discr_expr(b)
        if discr_only and e[0] != "discr":
            continue
        if has_all(ctx.leaves(e), pats):
            out.append(b)
    return out


def arm_regions(body, sw):
    """label -> set of blocks reachable from that arm only (not from sibling arms)."""
    edges = body.out_edges(sw)
    reach = {}
    for d, lab in edges:
        reach[lab] = body.reachable_from([d])
    out = {}
    for d, lab in edges:
        others = set()
        for d2, lab2 in edges:
            if lab2 != lab:
                others |= reach[lab2]
        out[lab] = reach[lab] - others
    return out


def variant_index(ctx, adt_path, variant):
    a = ctx.facts.adt(adt_path)
    if a is None:
        return None
    for i, v in enumerate(a["variants"]):
        if v["name"] == variant:
            return i
    return None


def calls_in(body, blocks, pats):
    return [b for b in sorted(blocks) if call_matches(body.blocks[b]["t"], pats)]


def call_expr(body, b):
    return body.expr_call(body.blocks[b]["t"], b, 0)


def edge_call_truth(ctx, body, sw, label, call_globs):
    """True/False when, on edge `label` of switch `sw`, the boolean call matching call_globs
    (e.g. Result::is_err) is known to have returned true/false; None if undetermined."""
    t = body.blocks[sw]["t"]
    truth = edge_truth(t, label)
    if truth is None:
        return None
    e = body.switch_discr_expr(sw)
    for node, neg in bool_nodes(e):
        if node[0] == "call" and any(glob(g, node[1]) or glob(g, node[2]) for g in call_globs):
            return truth != neg
    return None


_INT_BITS = {"u8": 8, "i8": 8, "u16": 16, "i16": 16, "u32": 32, "i32": 32, "u64": 64, "i64": 64, "usize": 64, "isize": 64, "u128": 128, "i128": 128}


def expand_nodes(ctx, e, depth=2, seen=None):
    """Nodes of expression e and - for calls of workspace-local functions that *return a value* -
    the nodes of the callee's returned expressions (bounded inlining), so that a conversion
    hidden in a private helper is seen as part of the caller's expression."""
    if seen is None:
        seen = set()
    for n in mir.walk(e):
        yield n
        if depth > 0 and n[0] == "call" and n[1] not in seen and ctx.facts.has(n[1]):
            seen.add(n[1])
            cb = ctx.main_body(n[1])
            if cb is None:
                continue
            for x in exit_sites(cb):
                yield from expand_nodes(ctx, x["expr"], depth - 1, seen)


def narrowing_casts(ctx, e, src_pats, below_bits):
    """Integer casts to a type narrower than below_bits applied to a value that derives from a leaf
    matching src_pats (e.g. the u32 proof index): such a cast forgets high bits before a comparison."""
    out = []
    for n in expand_nodes(ctx, e):
        if n[0] == "cast" and _INT_BITS.get(str(n[2]), 999) < below_bits:
            inner = set()
            for m in expand_nodes(ctx, n[1]):
                if m[0] == "call":
                    inner.add("call:" + m[1])
                    inner.add("call:" + m[2])
            if any(mir.leaf_match(p, l) for p in src_pats for l in inner):
                out.append(n)
    return out


def result_ok_edge(ctx, body, sw, label):
    """True when edge `label` of switch `sw` is taken exactly when the tested Result is Ok, False
    when it is Err; None if the switch is not such a test. Recognises `r.is_ok()`, `r.is_err()`
    (with negations) and a match / if-let on the Result's discriminant (Ok = 0, Err = 1)."""
    t = edge_call_truth(ctx, body, sw, label, ["*Result*::is_ok"])
    if t is not None:
        return t
    t = edge_call_truth(ctx, body, sw, label, ["*Result*::is_err"])
    if t is not None:
        return not t
    term = body.blocks[sw]["t"]
    e = body.switch_discr_expr(sw)
    if e[0] != "discr":
        return None
    vals = [v for v, _ in term["targets"]]
    if not set(vals) <= {0, 1}:
        return None
    if label == "otherwise":
        if vals == [0]:
            return False
        if vals == [1]:
            return True
        return None
    return label == 0


# ---------------------------------------------------------------------------- engine D helpers
def aggregates(ctx, body, adt_glob, variant=None):
    """Aggregate constructions of an ADT in body -> list of (block, {field: expr})."""
    out = []
    for b in sorted(body.reachable_from([0])):
        for i, s in enumerate(body.stmts(b)):
            r = s["r"]
            if r["k"] == "agg" and r.get("ak") == "adt" and glob(adt_glob, r["adt"]) and (variant is None or r.get("variant") == variant):
                fields = {}
                for name, op in zip(r.get("fields") or [], r["ops"]):
                    fields[name] = body.expr_operand(op, 0, b)
                out.append((b, fields, body.loc(b, i)))
    return out


def return_leaves(ctx, body, kinds=("accept", "may")):
    """Union of the leaves of every accepted return value."""
    out = set()
    for x in exit_sites(body):
        if x["kind"] in kinds:
            out |= ctx.leaves(x["expr"])
    return out


def call_sites_with(ctx, body, pats, leaf_pats=()):
    out = []
    for b in body.call_sites(pats):
        if not leaf_pats or has_all(ctx.leaves(call_expr(body, b)), leaf_pats):
            out.append(b)
    return out


def const_value(ctx, path):
    c = ctx.facts.const(path)
    return None if c is None else c.get("v")


def holds(ctx, body, spec, targets=None, cut_back_edges=True, start=None):
    """Silent form of require_guard -> (bool, guard sites)."""
    g = Guards(ctx, body, targets, cut_back_edges, start)
    ctx.evaluations += len(g.switches)
    if not g.targets:
        return False, []
    path, gs = g.unguarded_path(spec)
    bad = [x for x in gs if x[2].get("bad_polarity")]
    return path is None, [body.loc(b) for b, _, _ in gs if (b, _, _) not in bad]


def call_result_honoured(ctx, body, b, rule, what, spec=None):
    """The result of the call in block b is honoured: from the call's return, neither an
    accepting exit nor the end of the current loop iteration is reachable except through the
    passing edge of a guard on that call's result (`?`, match with a rejecting arm, ...)."""
    t = body.blocks[b]["t"]
    if spec is None:
        spec = Has("call:" + callee_of(t))
    nxt = [d for d, _ in body.out_edges(b)]
    back = set()
    for x in body.reachable_from(nxt):
        for d in body.succ(x):
            if body.dominates(d, x) and body.dominates(d, b):
                back.add(x)
    acc = [x["block"] for x in exit_sites(body) if x["kind"] in ("accept", "may")]
    g = Guards(ctx, body, targets=list(back) + acc, cut_back_edges=True, start=nxt)
    ctx.evaluations += len(g.switches)
    path, gs = g.unguarded_path(spec)
    if path is None:
        ctx.ok(rule, body.path, what, site=body.loc(b), detail=dict(guards=[body.loc(x) for x, _, _ in gs]))
        return True
    rp = body.render_path(path)
    ctx.violate(rule, body.path, "%s: the call's result can be ignored" % what, site=body.loc(b), key="%s|%s|ignored" % (rule, body.path), path=rp)
    return False


# ---------------------------------------------------------------------------- liveness helpers (engine O)
def holder_locals(body, seeds):
    """Locals that (transitively) receive the value of one of the seed places by move/copy.
    seeds: set of (local, proj-tuple)."""
    hold = set()
    frontier = set(seeds)
    changed = True
    while changed:
        changed = False
        for b in range(body.n):
            if body.blocks[b]["cl"]:
                continue
            for s in body.stmts(b):
                r = s["r"]
                if r["k"] != "use" or s["d"].get("p"):
                    continue
                pl = r["a"].get("mv") or r["a"].get("cp")
                if not pl:
                    continue
                key = (pl["l"], mir.norm_proj(pl.get("p")))
                if key in frontier or (pl["l"] in hold and not pl.get("p")):
                    if s["d"]["l"] not in hold:
                        hold.add(s["d"]["l"])
                        changed = True
    return hold


def release_sites(body, hold, seeds=(), include_cleanup=False):
    """Blocks where a held value is dropped or moved away (drop terminator on a holder / seed
    place, or a call that takes it by move)."""
    out = []
    seeds = set(seeds)
    # whole-value moves out of a holder: a later `drop` of that local is a no-op (this MIR is
    # taken before drop elaboration, so drops of moved-from locals are still present)
    moved_at = {}
    for b in range(body.n):
        if body.blocks[b]["cl"]:
            continue
        for st in body.stmts(b):
            r = st["r"]
            if r["k"] == "use":
                pl = r["a"].get("mv")
                if pl and not pl.get("p") and pl["l"] in hold:
                    moved_at.setdefault(pl["l"], []).append(b)
    for b in range(body.n):
        if body.blocks[b]["cl"] and not include_cleanup:
            continue
        t = body.blocks[b]["t"]
        if t["k"] == "drop":
            pl = t["p"]
            if not pl.get("p") and not body.blocks[b]["cl"] and any(body.dominates(m, b) for m in moved_at.get(pl["l"], [])):
                continue
            if (pl["l"] in hold and not pl.get("p")) or (pl["l"], mir.norm_proj(pl.get("p"))) in seeds:
                out.append(b)
        elif t["k"] == "call":
            for a in t["args"]:
                pl = a.get("mv")
                if pl and ((pl["l"] in hold and not pl.get("p")) or (pl["l"], mir.norm_proj(pl.get("p"))) in seeds):
                    out.append(b)
    return out


def yields(body):
    return [b for b in range(body.n) if not body.blocks[b]["cl"] and body.blocks[b]["t"]["k"] == "yield"]


def value_source_calls(e, depth=0, seen=None):
    """Calls a value is the (awaited / `?`-unwrapped / converted) result of: follows only the
    first operand through Result/Option combinators, transparent wrappers, Future::poll and
    resolved coroutine polls, and the non-mutation alternatives of a phi."""
    if seen is None:
        seen = set()
    out = []
    if depth > 30 or id(e) in seen:
        return out
    seen.add(id(e))
    tag = e[0]
    if tag == "call":
        name = e[1]
        if is_combinator(e) or std_tail(e[2]) in ("Future::poll",) or name.endswith("}") or std_tail(e[2]) in ("Pin::new_unchecked", "IntoFuture::into_future"):
            if e[3]:
                out += value_source_calls(e[3][0], depth + 1, seen)
        else:
            out.append(e)
    elif tag in ("proj", "part"):
        out += value_source_calls(e[2], depth + 1, seen)
    elif tag == "cast":
        out += value_source_calls(e[1], depth + 1, seen)
    elif tag == "phi":
        for a in e[1]:
            if a[0] != "mut":
                out += value_source_calls(a, depth + 1, seen)
    elif tag == "lazy":
        v = e[1]._expr_memo.get(e[2])
        if v is not None:
            out += value_source_calls(v, depth + 1, seen)
    return out
