"""Engine P, part 1: the call cone of a set of root functions and the panic-capable sites in it."""
import re

from .mir import Body, callee_of, glob, std_tail

WORKSPACE = ("celestia_types::", "lumina_node::", "celestia_grpc::", "lumina_utils::", "celestia_proto::")
# extern generic entry points that call back into local trait impls of their type arguments
CALLBACK_TRAITS = (
    "prost::message::Message",
    "core::convert::TryFrom",
    "core::convert::From",
    "core::convert::TryInto",
    "core::convert::Into",
    "core::default::Default",
    "tendermint_proto::Protobuf",
    "core::str::traits::FromStr",
)
SKIP_METHODS = ("::encode_raw", "::encoded_len", "::fmt", "::clear")
LOCAL_TY = re.compile(r"((?:celestia_types|lumina_node|celestia_grpc|lumina_utils|celestia_proto|nmt_rs|leopard_codec)(?:::[A-Za-z_][A-Za-z_0-9]*)+)")
DEP_PREFIX = ("nmt_rs::", "leopard_codec::", "<nmt_rs::", "<leopard_codec::")


def in_dependency(path):
    """True for bodies of the analysed dependencies (present only after Facts.load_deps)."""
    return path.startswith(DEP_PREFIX) or (path.startswith("<") and (" nmt_rs::" in path[:200] or " leopard_codec::" in path[:200]) and not any(w in path[:120] for w in WORKSPACE))


def is_local(path):
    p = path.lstrip("<&")
    return p.startswith(WORKSPACE) or any(("<" + w) in path[:60] or (" " + w) in path[:200] for w in WORKSPACE) and path.startswith("<")


class Cone:
    def __init__(self, ctx, roots, stop=()):
        self.ctx = ctx
        self.roots = roots
        self.stop = tuple(stop)
        self.bodies = {}  # path -> Body
        self.parent = {}  # path -> (caller path, loc)
        self.extern_calls = []  # (body, block, callee)
        self.unresolved = []
        self._impl_index = None
        self.build()

    # ------------------------------------------------------------------ helpers
    def impl_index(self):
        """trait path -> {method name -> [body paths]} and self type -> [body paths of trait impls]"""
        if self._impl_index is None:
            by_trait = {}
            by_self = {}
            for p in self.ctx.facts.paths():
                m = re.match(r"^<(.+) as ([^<>]+(?:<.*>)?)>::([A-Za-z_0-9]+)$", p)
                if not m:
                    continue
                st, tr, meth = m.group(1), m.group(2), m.group(3)
                trb = re.sub(r"<.*$", "", tr)
                by_trait.setdefault((trb, meth), []).append(p)
                by_self.setdefault(st, []).append((trb, meth, p))
            self._impl_index = (by_trait, by_self)
        return self._impl_index

    def add(self, path, frm=None):
        if path in self.bodies:
            return
        if any(glob(s, path) for s in self.stop):
            return
        b = self.ctx.fn(path)
        if b is None:
            return
        self.bodies[path] = b
        self.parent[path] = frm
        self.work.append(path)

    def build(self):
        self.work = []
        for r in self.roots:
            if self.ctx.fn(r) is None:
                self.unresolved.append(r)
                continue
            self.add(r)
        by_trait, by_self = self.impl_index()
        facts = self.ctx.facts
        while self.work:
            p = self.work.pop()
            b = self.bodies[p]
            # nested closures / coroutines are part of the function
            for q in facts.family(p)[1:]:
                self.add(q, (p, b.loc(0)))
            for blk in range(b.n):
                if b.blocks[blk]["cl"]:
                    continue
                for st in b.stmts(blk):
                    r = st["r"]
                    if r["k"] == "agg" and r.get("ak") in ("closure", "coroutine", "coroutine_closure"):
                        self.add(r["def"], (p, b.loc(blk)))
                t = b.blocks[blk]["t"]
                if t["k"] != "call" or "f" not in t:
                    continue
                rf, f = t.get("rf"), t["f"]
                here = (p, b.loc(blk))
                if rf and facts.has(rf):
                    self.add(rf, here)
                    continue
                if rf is None and t.get("trait"):
                    # trait method on a type parameter: every local impl of that method
                    meth = f.rsplit("::", 1)[-1]
                    for q in by_trait.get((t["trait"], meth), []):
                        self.add(q, here)
                    if facts.has(f):
                        self.add(f, here)  # provided (default) method body
                    continue
                if facts.has(f):
                    self.add(f, here)
                    continue
                # extern callee: callbacks into local impls of its type arguments
                self.extern_calls.append((b, blk, callee_of(t)))
                tys = set(LOCAL_TY.findall(t.get("ga", "") + " " + (t.get("self_ty") or "")))
                for ty in tys:
                    for trb, meth, q in by_self.get(ty, []):
                        if trb in CALLBACK_TRAITS and not q.endswith(SKIP_METHODS):
                            self.add(q, here)

    def chain(self, path):
        out = []
        seen = set()
        while path and path not in seen:
            seen.add(path)
            out.append(path)
            fr = self.parent.get(path)
            path = fr[0] if fr else None
        return list(reversed(out))
