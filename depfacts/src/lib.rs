// intentionally empty: only the dependencies are analysed
