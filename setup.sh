#!/bin/sh
# Builds the fact-extraction driver and warms the dependency cache (offline).
set -e
cd "$(dirname "$0")"
export CARGO_NET_OFFLINE=true
(cd driver && cargo build --release --offline)
python3 - <<'PY'
import sys
sys.path.insert(0, ".")
from engine import facts
F = facts.load()
print("facts ready:", F.info, "bodies:", F.body_count())
# the dependency facts of the C16 thorough tier (nmt-rs, leopard-codec as pinned by /repo/Cargo.lock)
F.load_deps()
print("dependency facts ready:", F.info.get("dep_facts"))
PY
