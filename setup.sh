#!/bin/sh
# Builds the fact-extraction driver and warms the dependency cache (offline).
set -e
cd "$(dirname "$0")"
export CARGO_NET_OFFLINE=true
(cd driver && cargo build --release --offline)
python3 - <<'PY'
import sys
sys.path.insert(0, ".")
from engine import facts
F = facts.load()
print("facts ready:", F.info, "bodies:", F.body_count())
PY
