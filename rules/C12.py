"""C12 — Blob commitments follow the share-commitment rules."""
from engine.rules import Cmp, Has, call_expr, call_sites_with, exit_sites, require_guard, return_leaves
from engine.mir import has_all, has_leaf

T = "celestia_types::"
CLAUSE = (
    "Decides over all CFG paths: Blob::validate accepts only past the comparison (accept on equality) of "
    "self.commitment with Commitment::from_blob(namespace, data, share_version, signer, app_version) - all five "
    "inputs flow into the recomputation; from_blob `?`-checks validate_blob and the share split and returns "
    "from_shares(namespace, those shares, app_version); from_shares derives the subtree width from "
    "subtree_root_threshold(app_version) and the share count, partitions by merkle_mountain_range_sizes and hashes "
    "every leaf set into the final root."
)
NOT_DECIDED = "Agreement with an independent ADR-013 implementation (numeric)."
ENGINES = "G (must-check), D (dependence)"
ASSUMPTIONS = ["tendermint simple_hash_from_byte_vectors and nmt-rs are opaque"]


def run(ctx):
    f = ctx.anchor(T + "blob::Blob::validate")
    if f:
        require_guard(ctx, f, Cmp(["a1.commitment"], ["call:*Commitment::from_blob"], pass_op="Eq", name="self.commitment == recomputed commitment"), "C12.validate.compare")
        require_guard(ctx, f, Has("call:*Commitment::from_blob", name="?Commitment::from_blob"), "C12.validate.recompute")
        fb = call_sites_with(ctx, f, ["*Commitment::from_blob"])
        ok = len(fb) == 1 and has_all(ctx.leaves(call_expr(f, fb[0])), ["a1.namespace", "a1.data", "a1.share_version", "a1.signer", "a2"])
        ctx.check(ok, "C12.validate.inputs", f.path, "recomputation covers namespace, data, share_version, signer and app_version", key="C12.validate.inputs")
    b = ctx.anchor(T + "blob::commitment::Commitment::from_blob")
    if b:
        require_guard(ctx, b, Has("call:*validate_blob", "a3", "a4", "a5", name="?validate_blob(share_version, signer, app_version)"), "C12.from_blob.validate")
        require_guard(ctx, b, Has("call:*split_blob_to_shares", "a1", "a2", "a3", "a4", name="?split_blob_to_shares"), "C12.from_blob.split")
        ex = [x for x in exit_sites(b) if x["kind"] in ("accept", "may")]
        ok = bool(ex) and all(has_all(ctx.leaves(x["expr"]), ["call:*Commitment::from_shares", "call:*split_blob_to_shares", "a1", "a5"]) for x in ex)
        ctx.check(ok, "C12.from_blob.result", b.path, "result is from_shares(namespace, split shares, app_version)", key="C12.from_blob.result")
    s = ctx.anchor(T + "blob::commitment::Commitment::from_shares")
    if s:
        sw = call_sites_with(ctx, s, ["*subtree_width"])
        ok = len(sw) == 1 and has_all(ctx.leaves(call_expr(s, sw[0])), ["call:*subtree_root_threshold", "a3", "len:a2"])
        ctx.check(ok, "C12.from_shares.width", s.path, "subtree width from subtree_root_threshold(app_version) and shares.len()", key="C12.from_shares.width")
        mm = call_sites_with(ctx, s, ["*merkle_mountain_range_sizes"])
        ok = len(mm) == 1 and has_all(ctx.leaves(call_expr(s, mm[0])), ["len:a2", "call:*subtree_width"])
        ctx.check(ok, "C12.from_shares.mmr", s.path, "partition sizes from merkle_mountain_range_sizes(len, subtree_width)", key="C12.from_shares.mmr")
        rl = return_leaves(ctx, s)
        ctx.check(has_all(rl, ["call:*simple_hash_from_byte_vectors", "call:*push_leaf", "a1", "a2"]), "C12.from_shares.root", s.path, "commitment = merkle root over the NMT roots of the leaf sets", key="C12.from_shares.root")

    # the width arithmetic of ADR-013 rounds UP twice and takes a minimum: these are the shape of
    # the code, not its numeric result (which stays undecided)
    from engine.rules import expand_nodes
    from engine.mir import std_tail
    w = ctx.anchor(T + "blob::commitment::subtree_width")
    if w:
        rl = return_leaves(ctx, w)
        ctx.check(has_all(rl, ["call:*round_up_to_power_of_2", "call:*blob_min_square_size", "a1", "a2"]) and has_leaf(rl, ["call:*Ord::min", "call:*::min"]),
                  "C12.width.min", w.path, "subtree width = min(round_up_to_power_of_2(ceil(shares / threshold)), blob_min_square_size(shares))", key="C12.width.min")
        # ceil(shares / threshold): a division plus a +1 taken when the remainder is non-zero (or div_ceil)
        tails = set()
        lits = set()
        for x in exit_sites(w):
            for n in expand_nodes(ctx, x["expr"], depth=0):
                if n[0] == "call":
                    tails.add(std_tail(n[2]) or n[2])
                if n[0] == "bin":
                    tails.add("bin:" + n[1])
        sl = set()
        for b in range(w.n):
            if w.blocks[b]["t"]["k"] == "switch":
                sl |= ctx.leaves(w.switch_discr_expr(b))
        on_remainder = has_leaf(sl, "call:*is_multiple_of") or has_leaf(sl, "call:*Rem::rem") or any(t.startswith("bin:Rem") for t in tails)
        ok = any(t.endswith("::div_ceil") for t in tails) or (any(t.startswith("bin:Div") for t in tails) and any(t.startswith("bin:Add") for t in tails) and on_remainder)
        ctx.check(ok, "C12.width.ceil-div", w.path, "shares / threshold is rounded up (+1 when the remainder is non-zero, or div_ceil)", key="C12.width.ceil-div")
    m = ctx.anchor(T + "blob::commitment::blob_min_square_size")
    if m:
        tails = set()
        adds = False
        for x in exit_sites(m):
            for n in expand_nodes(ctx, x["expr"], depth=0):
                if n[0] == "call":
                    tails.add(std_tail(n[2]) or n[2])
                if n[0] == "bin" and n[1].startswith("Add"):
                    adds = True
        up = any(t.endswith("::ceil") for t in tails) or (any("isqrt" in t for t in tails) and adds)
        ctx.check(any("sqrt" in t for t in tails) and up and any("round_up_to_power_of_2" in t for t in tails), "C12.minsquare.ceil-sqrt", m.path,
                  "minimum square size = round_up_to_power_of_2(ceil(sqrt(shares))): the square root is rounded up (ceil, or isqrt plus a correction)", key="C12.minsquare.ceil-sqrt")
