"""C12 — Blob commitments follow the share-commitment rules."""
from engine.rules import Cmp, Has, call_expr, call_sites_with, exit_sites, require_guard, return_leaves
from engine.mir import has_all, has_leaf

T = "celestia_types::"
CLAUSE = (
    "Decides over all CFG paths: Blob::validate accepts only past the comparison (accept on equality) of "
    "self.commitment with Commitment::from_blob(namespace, data, share_version, signer, app_version) - all five "
    "inputs flow into the recomputation; from_blob `?`-checks validate_blob and the share split and returns "
    "from_shares(namespace, those shares, app_version); from_shares derives the subtree width from "
    "subtree_root_threshold(app_version) and the share count, partitions by merkle_mountain_range_sizes and hashes "
    "every leaf set into the final root."
)
NOT_DECIDED = "Agreement with an independent ADR-013 implementation (numeric)."
ENGINES = "G (must-check), D (dependence)"
ASSUMPTIONS = ["tendermint simple_hash_from_byte_vectors and nmt-rs are opaque"]


def run(ctx):
    f = ctx.anchor(T + "blob::Blob::validate")
    if f:
        require_guard(ctx, f, Cmp(["a1.commitment"], ["call:*Commitment::from_blob"], pass_op="Eq", name="self.commitment == recomputed commitment"), "C12.validate.compare")
        require_guard(ctx, f, Has("call:*Commitment::from_blob", name="?Commitment::from_blob"), "C12.validate.recompute")
        fb = call_sites_with(ctx, f, ["*Commitment::from_blob"])
        ok = len(fb) == 1 and has_all(ctx.leaves(call_expr(f, fb[0])), ["a1.namespace", "a1.data", "a1.share_version", "a1.signer", "a2"])
        ctx.check(ok, "C12.validate.inputs", f.path, "recomputation covers namespace, data, share_version, signer and app_version", key="C12.validate.inputs")
    b = ctx.anchor(T + "blob::commitment::Commitment::from_blob")
    if b:
        require_guard(ctx, b, Has("call:*validate_blob", "a3", "a4", "a5", name="?validate_blob(share_version, signer, app_version)"), "C12.from_blob.validate")
        require_guard(ctx, b, Has("call:*split_blob_to_shares", "a1", "a2", "a3", "a4", name="?split_blob_to_shares"), "C12.from_blob.split")
        ex = [x for x in exit_sites(b) if x["kind"] in ("accept", "may")]
        ok = bool(ex) and all(has_all(ctx.leaves(x["expr"]), ["call:*Commitment::from_shares", "call:*split_blob_to_shares", "a1", "a5"]) for x in ex)
        ctx.check(ok, "C12.from_blob.result", b.path, "result is from_shares(namespace, split shares, app_version)", key="C12.from_blob.result")
    s = ctx.anchor(T + "blob::commitment::Commitment::from_shares")
    if s:
        sw = call_sites_with(ctx, s, ["*subtree_width"])
        ok = len(sw) == 1 and has_all(ctx.leaves(call_expr(s, sw[0])), ["call:*subtree_root_threshold", "a3", "len:a2"])
        ctx.check(ok, "C12.from_shares.width", s.path, "subtree width from subtree_root_threshold(app_version) and shares.len()", key="C12.from_shares.width")
        mm = call_sites_with(ctx, s, ["*merkle_mountain_range_sizes"])
        ok = len(mm) == 1 and has_all(ctx.leaves(call_expr(s, mm[0])), ["len:a2", "call:*subtree_width"])
        ctx.check(ok, "C12.from_shares.mmr", s.path, "partition sizes from merkle_mountain_range_sizes(len, subtree_width)", key="C12.from_shares.mmr")
        rl = return_leaves(ctx, s)
        ctx.check(has_all(rl, ["call:*simple_hash_from_byte_vectors", "call:*push_leaf", "a1", "a2"]), "C12.from_shares.root", s.path, "commitment = merkle root over the NMT roots of the leaf sets", key="C12.from_shares.root")
