"""C37 — Header subscriptions deliver a gap-free increasing stream ('only after stored' clause)."""
from engine.rules import AnyOf, Cmp, Has, call_expr, call_sites_with, require_guard
from engine.mir import has_all, has_leaf, norm_proj

B = "lumina_node::node::subscriptions::BroadcastingStore::<S>::"
CLAUSE = (
    "Decides over all CFG paths of BroadcastingStore::announce_insert: every send_range call is past `?` on "
    "inner.insert(range) (headers are announced only after they were stored), lies on the `lowest height >= last sent "
    "height` side of the historical-range test, and is guarded by a comparison of last_sent_height + 1 with the first "
    "height of the range being sent (consecutive delivery); send_range advances last_sent_height to the height of the "
    "last header it was given and sends the headers in order; init_broadcast announces the head only on first "
    "initialisation."
)
NOT_DECIDED = "Gap-freedom over arbitrary insertion orders and reconnections (history-level)."
ENGINES = "O/G (must-check with call-site targets), D"
ASSUMPTIONS = []


def run(ctx):
    f = ctx.anchor(B + "announce_insert")
    if f:
        sends = call_sites_with(ctx, f, [B + "send_range"])
        ctx.check(len(sends) == 2, "C37.send.sites", f.path, "send sites: direct and from the pending list (%d)" % len(sends), key="C37.send.sites")
        if sends:
            require_guard(ctx, f, Has("call:lumina_node::store::Store::insert", "self.inner", "range", name="?inner.insert(range) before anything is announced"), "C37.stored-first", targets=sends)
            require_guard(ctx, f, Cmp(["range", "call:*ExtendedHeader::height"], ["self.last_sent_height"], pass_op="Ge", name="historical ranges (below last sent height) are never announced"), "C37.not-historical", targets=sends)
            for b in sends:
                require_guard(ctx, f, AnyOf(Cmp(["self.last_sent_height"], ["call:*ExtendedHeader::height"], pass_op="Eq"),
                                            # the same comparison made inside the predicate of a search over the pending ranges
                                            Has(["call:*Iterator::position", "call:*Iterator::find", "call:*Iterator::rposition"], "self.last_sent_height", "call:*ExtendedHeader::height", "self.pending"),
                                            name="last_sent_height + 1 == first height of the announced range"), "C37.consecutive", targets=[b], what="send at %s only for the range that continues the stream" % f.loc(b))
        # the pending drain: when the drain is an index loop over self.pending (today's idiom), sending a
        # range moves last_sent_height, so ranges that were skipped earlier in the pass may have become
        # adjacent: the scan index must restart at 0 on the way back to the loop head. Other idioms
        # (sort first, search-until-none) have no such index and the rule does not speak about them.
        rm = [b for b in call_sites_with(ctx, f, ["*Vec*::swap_remove", "*Vec*::remove"]) if has_leaf(ctx.leaves(call_expr(f, b)[3][0]), "self.pending")]
        for b in rm:
            t = f.blocks[b]["t"]
            op = t["args"][1] if len(t["args"]) > 1 else None
            pl = (op.get("cp") or op.get("mv")) if op else None
            if not pl or pl.get("p"):
                continue
            idx = pl["l"]
            for _ in range(4):
                defs = [d for d in f.defs().get(idx, []) if d[0] == "assign"]
                if len(defs) == 1 and defs[0][4]["k"] == "use" and (defs[0][4]["a"].get("cp") or defs[0][4]["a"].get("mv")) and not (defs[0][4]["a"].get("cp") or defs[0][4]["a"].get("mv")).get("p"):
                    idx = (defs[0][4]["a"].get("cp") or defs[0][4]["a"].get("mv"))["l"]
                else:
                    break
            # an index scan increments the index somewhere in the loop (`i += 1`); a position search
            # (`while let Some(p) = pending.iter().position(..)`) does not and is not judged
            incr = False
            for x in range(f.n):
                for st in f.stmts(x):
                    if st["d"]["l"] == idx and not st["d"].get("p"):
                        e = f.expr_rvalue(st["r"], (), x, 0)
                        from engine.mir import walk as _w
                        if any(n[0] == "bin" and n[1].startswith("Add") for n in _w(e)):
                            incr = True
            if not incr:
                ctx.notes.append("C37.pending.rescan: the pending drain is not an index scan; not judged")
                continue
            in_loop = b in f.reachable_from(f.succ(b))
            inloop_sends = [x for x in sends if x in f.reachable_from([b]) and b in f.reachable_from([x])]
            if not (in_loop and inloop_sends):
                continue
            heads = [d for x in f.reachable_from([b]) for d in f.succ(x) if f.dominates(d, x) and f.dominates(d, b)]
            zero, other = [], []
            for x in sorted(f.reachable_from(inloop_sends, removed_blocks=set(heads))):
                for i, st in enumerate(f.stmts(x)):
                    if st["d"]["l"] == idx and not st["d"].get("p"):
                        r = st["r"]
                        (zero if r["k"] == "use" and isinstance(r.get("a"), dict) and r["a"].get("v") == 0 and "c" in r["a"] else other).append(x)
            leak = f.path_to(inloop_sends, heads, (), set(zero)) if heads else None
            ctx.check(bool(zero) and not other and leak is None, "C37.pending.rescan", f.path,
                      "after a pending range is sent the scan of the pending list restarts from the beginning (index reset to 0 on every path back to the loop head)",
                      site=f.loc(inloop_sends[0]), key="C37.pending.rescan", path=f.render_path(leak) if leak else None)
        ins = call_sites_with(ctx, f, ["lumina_node::store::Store::insert"])
        ctx.check(len(ins) == 2, "C37.insert.sites", f.path, "store insert on both the historical and the live arm", key="C37.insert.sites")
    s = ctx.anchor(B + "send_range")
    if s:
        ok = False
        for b in sorted(s.reachable_from([0])):
            for i, st in enumerate(s.stmts(b)):
                pr = norm_proj(st["d"].get("p"))
                if pr and pr[-1] == "last_sent_height":
                    ls = ctx.leaves(s.expr_rvalue(st["r"], (), b, 0))
                    ok = has_all(ls, ["headers", "call:*::last", "call:*ExtendedHeader::height"])
        ctx.check(ok, "C37.advance", s.path, "last_sent_height := height of the last header of the announced range", key="C37.advance")
        snd = call_sites_with(ctx, s, ["tokio::sync::broadcast::Sender::<T>::send"])
        ctx.check(len(snd) == 1 and has_leaf(ctx.leaves(call_expr(s, snd[0])), "headers"), "C37.sends-range", s.path, "every header of the range is broadcast in order", key="C37.sends-range")
    i = ctx.anchor(B + "init_broadcast", main=False)
    if i:
        snd = call_sites_with(ctx, i, ["tokio::sync::broadcast::Sender::<T>::send"])
        if snd:
            require_guard(ctx, i, Has("a1.last_sent_height", name="head announced only on first initialisation"), "C37.init-once", targets=snd)
