"""C25 — Syncer never re-requests history behind a pruned window edge."""
from engine.rules import AnyOf, BoolIs, Direct, Has, call_expr, require_guard
from engine.mir import has_all, has_leaf
from rules.C24 import find_sites, request_sites

S = "lumina_node::syncer::"
CLAUSE = (
    "Decides, disjunctively (the repair could live on either side): every CFG path in the syncer from the batch "
    "calculation to the creation of the header request passes a guard whose condition depends on "
    "in_sampling_window(header above the batch) or on pruned-range membership of the height above the batch; OR the "
    "pruner's batch builder subtracts the synced-range edges from its after-sampling-window candidates (so the header "
    "that bounds the window is never pruned)."
)
NOT_DECIDED = "Behaviour under arbitrary response timing."
ENGINES = "G (disjunctive must-check across two components)"
ASSUMPTIONS = []


def run(ctx):
    pruner_side = False
    g = ctx.main_body("lumina_node::pruner::Worker::<S, B>::get_next_prunable_batch")
    if g is not None:
        from engine.mir import walk
        from engine.rules import call_sites_with
        # does the after-sampling-window candidate set (the one iterated in reverse for consent) exclude edges?
        for b in call_sites_with(ctx, g, ["*Iterator::rev", "*BlockRanges::rev"]):
            e = call_expr(g, b)
            if any(n[0] == "call" and n[2].endswith("Sub::sub") and has_leaf(ctx.leaves(n[3][1]), "call:*BlockRanges::edges") for n in walk(e)):
                pruner_side = True
    ok_all = True
    for body, blk in find_sites(ctx):
        ctx.functions.add(body.path)
        for b, i, r in request_sites(ctx, body):
            if pruner_side:
                ctx.ok("C25.window-edge", body.path, "pruner never prunes synced-range edges after the sampling window", site=body.loc(b, i))
                continue
            spec = AnyOf(BoolIs(["*in_sampling_window"], True), BoolIs(["*BlockRanges::contains"], False, args=["call:lumina_node::store::Store::get_pruned_ranges"]),
                         name="window decision (in_sampling_window of the header above the batch, or pruned-range membership of that height) on every path to the request")
            require_guard(ctx, body, spec, "C25.window-edge", targets=[b])
