"""C47 — Bech32 addresses round-trip and reject wrong kinds."""
from engine.rules import Cmp, Direct, Has, call_sites_with, exit_sites, require_guard, walk
from engine.mir import has_all, has_leaf

A = "celestia_types::state::address::"
CLAUSE = (
    "Decides: AddressKind::prefix and AddressKind::from_str are inverse tables over the three bech32 prefixes (the "
    "variant accepted for a prefix string is the variant whose prefix() returns that string; everything else is "
    "rejected); each typed FromStr (AccAddress / ValAddress / ConsAddress, three macro instances) accepts only past "
    "the kind match for its own kind; string_to_kind_and_id `?`-checks bech32::decode, the prefix parse and the "
    "20-byte conversion; Display goes through address_to_string with the address's own prefix."
)
NOT_DECIDED = "bech32 checksum handling inside the bech32 crate; value-level round trip."
ENGINES = "S (inverse tables), G (kind guard), floors per macro instance"
ASSUMPTIONS = ["bech32::decode rejects bad checksums"]
KINDS = {"Account": "AccAddress", "Validator": "ValAddress", "Consensus": "ConsAddress"}


def run(ctx):
    p = ctx.anchor(A + "AddressKind::prefix", main=False)
    f = ctx.anchor("<celestia_types::state::address::AddressKind as core::str::traits::FromStr>::from_str", main=False)
    table_p, table_f = {}, {}
    if p:
        sw = [b for b in sorted(p.reachable_from([0])) if p.blocks[b]["t"]["k"] == "switch"]
        adt = ctx.facts.adt(A + "AddressKind")
        names = [v["name"] for v in adt["variants"]] if adt else []
        for x in exit_sites(p):
            conds = p.edge_conditions(x["block"])
            lits = [l for l in ctx.leaves(x["expr"]) if l.startswith("lit:")]
            for s, lab, d in conds:
                if isinstance(lab, int) and lab < len(names) and lits:
                    table_p[names[lab]] = sorted(lits)[0]
                elif lab == "otherwise" and lits:
                    vals = [v for v, _ in p.blocks[s]["t"]["targets"]]
                    rest = [n for i, n in enumerate(names) if i not in vals]
                    if len(rest) == 1:
                        table_p[rest[0]] = sorted(lits)[0]
    if f:
        for x in exit_sites(f):
            if x["kind"] != "accept":
                continue
            variant = next((n[2] for n in walk(x["expr"]) if n[0] == "agg" and n[1] == A + "AddressKind"), None)
            for s, lab, d in f.edge_conditions(x["block"]):
                e = f.switch_discr_expr(s)
                from engine.rules import edge_truth
                if edge_truth(f.blocks[s]["t"], lab) is True:
                    lits = [l for l in ctx.leaves(e) if l.startswith("lit:")]
                    if variant and lits:
                        table_f[variant] = sorted(lits)[0]
        rej = [x for x in exit_sites(f) if x["kind"] == "reject"]
        ctx.check(len(rej) >= 1, "C47.kind.reject", f.path, "unknown prefixes are rejected", key="C47.kind.reject")
    def norm(v):
        if v and v.startswith("lit:") and not v.startswith('lit:"'):
            c = ctx.facts.const(v[4:])
            if c and "sv" in c:
                return 'lit:"%s"' % c["sv"]
        return v
    table_p = {k: norm(v) for k, v in table_p.items()}
    table_f = {k: norm(v) for k, v in table_f.items()}
    ok = len(table_p) == 3 and len(table_f) == 3 and all(table_p.get(k) == table_f.get(k) for k in KINDS) and len(set(table_p.values())) == 3
    ctx.check(ok, "C47.kind.inverse", A + "AddressKind", "prefix() and from_str() are inverse tables: %s vs %s" % (table_p, table_f), key="C47.kind.inverse")
    n = 0
    for kind, ty in KINDS.items():
        g = ctx.anchor("<%s%s as core::str::traits::FromStr>::from_str" % (A, ty), main=False)
        if not g:
            continue
        n += 1
        require_guard(ctx, g, Has("call:" + A + "string_to_kind_and_id", "a1", name="?string_to_kind_and_id(s)"), "C47.typed.parse|" + ty)
        # accept only on the arm of its own kind
        adt = ctx.facts.adt(A + "AddressKind")
        idx = [v["name"] for v in adt["variants"]].index(kind)
        acc = [x["block"] for x in exit_sites(g) if x["kind"] == "accept"]
        okk = bool(acc)
        # the switch on the parsed kind: the accepting exit is reachable from the arm of the type's own
        # kind and from no other arm (an or-pattern `Own | Account` adds a second label)
        # (the discriminant of the kind is read from a projection into the parsed pair; the `?` on the
        # parse result itself is the discriminant of the Try::branch call, not of a projection)
        ksw = [b for b in sorted(g.reachable_from([0])) if g.blocks[b]["t"]["k"] == "switch" and g.switch_discr_expr(b)[0] == "discr"
               and g.switch_discr_expr(b)[1][0] in ("proj", "part") and has_leaf(ctx.leaves(g.switch_discr_expr(b)), "call:" + A + "string_to_kind_and_id")]
        labs = set()
        for b in ksw:
            for d, lab in g.out_edges(b):
                if any(a in g.reachable_from([d]) for a in acc):
                    labs.add(lab)
        okk = okk and bool(ksw) and labs == {idx}
        ctx.check(okk, "C47.typed.kind", g.path, "%s parses only strings whose prefix kind is %s" % (ty, kind), key="C47.typed.kind|" + ty)
    ctx.floor("C47.typed.instances", "typed FromStr instances", n, 3)
    s = ctx.anchor(A + "string_to_kind_and_id", main=False)
    if s:
        require_guard(ctx, s, Has("call:bech32::*decode", "a1", name="?bech32::decode"), "C47.parse.bech32")
        require_guard(ctx, s, Has("call:*str*::parse", name="?prefix kind parse"), "C47.parse.kind")
        lenspec = Has("call:*TryInto*::try_into", name="20-byte id conversion checked")
        require_guard(ctx, s, lenspec, "C47.parse.len")
        # the length-checked conversion must see the WHOLE decoded payload: between the bech32 payload
        # and try_into only borrows, derefs and full-range views are allowed (a `get(..20)` / `[..20]`
        # / split_at in between makes every longer payload pass)
        from engine.rules import Guards
        from engine.mir import std_tail
        WHOLE = ("Deref::deref", "Index::index", "AsRef::as_ref", "Vec::as_slice", "Borrow::borrow", "<impl [T]>::as_ref", "Vec::as_ref", "Into::into", "From::from", "Try::branch", "Result::map_err")
        bad = []
        seen = 0
        for b, _p, _i in Guards(ctx, s).guard_blocks(lenspec):
            for n in walk(s.switch_discr_expr(b)):
                if n[0] == "call" and std_tail(n[2]) in ("TryInto::try_into", "TryFrom::try_from") and n[3]:
                    seen += 1
                    x = n[3][0]
                    for _ in range(12):
                        if x[0] in ("proj", "part"):
                            x = x[2]
                        elif x[0] == "cast":
                            x = x[1]
                        elif x[0] == "call" and std_tail(x[2]) in WHOLE and x[3]:
                            if std_tail(x[2]) == "Index::index" and len(x[3]) > 1 and not (x[3][1][0] == "agg" and str(x[3][1][1]).endswith("RangeFull")):
                                bad.append("partial index")
                                break
                            x = x[3][0]
                        else:
                            break
                    if x[0] == "call" and not (x[1].startswith("bech32::") or "bech32" in x[2]):
                        bad.append(std_tail(x[2]) or x[2])
        ctx.check(seen >= 1 and not bad, "C47.parse.whole-payload", s.path, "the 20-byte conversion is applied to the whole decoded payload" + (" (found %s in between)" % bad[0] if bad else ""), key="C47.parse.whole-payload")
    d = ctx.anchor(A + "address_to_string", main=False)
    if d:
        rl = set()
        for x in exit_sites(d):
            rl |= ctx.leaves(x["expr"])
        ctx.check(has_all(rl, ["call:bech32::*encode", "call:*AddressTrait::prefix", "a1"]), "C47.display", d.path, "displayed form = bech32(own prefix, id bytes)", key="C47.display")
