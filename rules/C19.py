"""C19 — Header stores conform to one abstract store model (sibling agreement of the native backends)."""
from engine.rules import call_expr, call_sites_with, exit_sites, root_fn, walk
from engine.mir import has_leaf
from rules.storelib import IM, RB, tx_closure

CLAUSE = (
    "Decides agreement between the in-memory and the redb backend, not conformance to a model: for insert, "
    "remove_height, mark_as_sampled, update_sampling_metadata and get_sampling_metadata both backends construct the "
    "same set of store error kinds (NotFound / ConstraintsNotMet / NeighborsVerificationFailed / HashExists / "
    "HeadersVerificationFailed; backend-internal inconsistency errors excluded) and apply the same set of range "
    "updates {stored, sampled, pruned} x {insert, remove} with the frozen correspondence header_ranges <-> "
    "HEADER_RANGES_KEY, sampled_ranges <-> SAMPLED_RANGES_KEY, pruned_ranges <-> PRUNED_RANGES_KEY; every range the "
    "redb backend modifies is written back with set_ranges under the key it was read from; sampling metadata is "
    "merged with de-duplication in both; EitherStore forwards every Store method to the same method of both sides."
)
NOT_DECIDED = "Query results and histories (behavioural model); the IndexedDb backend (not compiled here)."
ENGINES = "S (sibling summaries), W (EitherStore forwarding)"
ASSUMPTIONS = []
KEYS = {"HEADER_RANGES_KEY": "stored", "SAMPLED_RANGES_KEY": "sampled", "PRUNED_RANGES_KEY": "pruned"}
FIELDS = {"header_ranges": "stored", "sampled_ranges": "sampled", "pruned_ranges": "pruned"}
ERRS = ("NotFound", "ConstraintsNotMet", "NeighborsVerificationFailed", "HashExists", "HeadersVerificationFailed")


def family_bodies(ctx, path):
    return [ctx.fn(p) for p in ctx.facts.family(path)]


def summary(ctx, bodies, backend):
    errs, ranges, written = set(), set(), set()
    for b in bodies:
        for blk in sorted(b.reachable_from([0])):
            for st in b.stmts(blk):
                r = st["r"]
                if r["k"] == "agg" and r.get("ak") == "adt" and r["adt"] in ("lumina_node::store::StoreError", "lumina_node::store::StoreInsertionError") and r["variant"] in ERRS:
                    errs.add(r["variant"])
            t = b.blocks[blk]["t"]
            if t["k"] != "call" or "f" not in t:
                continue
            nm = (t.get("rf") or t["f"])
            if nm.endswith(("BlockRanges::insert_relaxed", "BlockRanges::remove_relaxed")):
                e = call_expr(b, blk)
                ls = ctx.leaves(e[3][0])
                which = None
                if backend == "mem":
                    for f, n in FIELDS.items():
                        if any(l.endswith("." + f) for l in ls):
                            which = n
                else:
                    for k, n in KEYS.items():
                        if has_leaf(ls, "const:" + RB + k):
                            which = n
                if which:
                    ranges.add((which, "insert" if nm.endswith("insert_relaxed") else "remove"))
            if nm == RB + "set_ranges":
                e = call_expr(b, blk)
                for k, n in KEYS.items():
                    if has_leaf(ctx.leaves(e[3][1]), "const:" + RB + k):
                        # value written derives from the ranges read under the same key
                        if has_leaf(ctx.leaves(e[3][2]), "const:" + RB + k):
                            written.add(n)
            for fn in ("map_err",):
                pass
        # error constructors passed as functions (map_err(StoreInsertionError::ConstraintsNotMet))
        for blk in sorted(b.reachable_from([0])):
            t = b.blocks[blk]["t"]
            if t["k"] == "call":
                for n in walk(call_expr(b, blk)):
                    if n[0] == "fnptr" and n[1].startswith("lumina_node::store::Store") and n[1].split("::")[-1] in ERRS:
                        errs.add(n[1].split("::")[-1])
    return errs, ranges, written


def run(ctx):
    ops = {
        "insert": (family_bodies(ctx, IM + "InMemoryStoreInner::insert") + family_bodies(ctx, IM + "InMemoryStoreInner::verify_against_neighbours") + family_bodies(ctx, IM + "InMemoryStore::insert"),
                   family_bodies(ctx, RB + "RedbStore::insert") + family_bodies(ctx, RB + "verify_against_neighbours")),
        "remove_height": (family_bodies(ctx, IM + "InMemoryStoreInner::remove_height"), family_bodies(ctx, RB + "RedbStore::remove_height")),
        "mark_as_sampled": (family_bodies(ctx, IM + "InMemoryStoreInner::mark_as_sampled"), family_bodies(ctx, RB + "RedbStore::mark_as_sampled")),
        "update_sampling_metadata": (family_bodies(ctx, IM + "InMemoryStoreInner::update_sampling_metadata"), family_bodies(ctx, RB + "RedbStore::update_sampling_metadata")),
        "get_sampling_metadata": (family_bodies(ctx, IM + "InMemoryStoreInner::get_sampling_metadata"), family_bodies(ctx, RB + "RedbStore::get_sampling_metadata")),
    }
    want_ranges = {"insert": {("stored", "insert"), ("sampled", "remove"), ("pruned", "remove")}, "remove_height": {("stored", "remove"), ("sampled", "remove"), ("pruned", "insert")},
                   "mark_as_sampled": {("sampled", "insert")}, "update_sampling_metadata": set(), "get_sampling_metadata": set()}
    for op, (mem, redb) in ops.items():
        ctx.check(bool(mem) and bool(redb) and all(mem) and all(redb), "C19.op.bodies", op, "both backends implement %s" % op, key="C19.op.bodies|" + op)
        if not (mem and redb and all(mem) and all(redb)):
            continue
        for b in mem + redb:
            ctx.functions.add(b.path)
        em, rm, _ = summary(ctx, mem, "mem")
        er, rr, wr = summary(ctx, redb, "redb")
        ctx.check(em == er and len(em) >= 1, "C19.errors", op, "%s: same store error kinds in both backends (%s vs %s)" % (op, sorted(em), sorted(er)), key="C19.errors|" + op)
        ctx.check(rm == rr == want_ranges[op], "C19.ranges", op, "%s: same range updates in both backends %s" % (op, sorted(rm)), key="C19.ranges|" + op)
        ctx.check({w for w, _ in rr} == wr, "C19.redb.write-back", op, "%s: every range the redb backend changed is written back under its own key (%s)" % (op, sorted(wr)), key="C19.redb.write-back|" + op)
    # remove_height: the per-height records are dropped on EVERY accepting path, in both backends
    # (an effect that happens only under a condition in one backend is a divergence the set
    # comparison above cannot see)
    MEM_F = (("sampling_data", "sampling"), ("headers", "headers"), ("height_to_hash", "heights"))
    RDB_T = (("SAMPLING_METADATA_TABLE", "sampling"), ("HEADERS_TABLE", "headers"), ("HEIGHTS_TABLE", "heights"))
    for backend, bodies in (("mem", ops["remove_height"][0]), ("redb", ops["remove_height"][1])):
        must = set()
        seen = set()
        for b in bodies:
            if b is None:
                continue
            eff = {}
            for blk in sorted(b.reachable_from([0])):
                t = b.blocks[blk]["t"]
                if t["k"] != "call" or "f" not in t or not t["args"]:
                    continue
                nm = t.get("rf") or t["f"]
                if not nm.endswith(("::remove", "::remove_entry")) or nm.endswith("remove_relaxed"):
                    continue
                ls = ctx.leaves(call_expr(b, blk)[3][0])
                lab = None
                if backend == "mem":
                    for f, n in MEM_F:
                        if any(l == "a1." + f or l.startswith("a1." + f + ".") for l in ls):
                            lab = n
                            break
                else:
                    for k, n in RDB_T:
                        if has_leaf(ls, "const:" + RB + k):
                            lab = n
                            break
                if lab:
                    eff.setdefault(lab, []).append(blk)
            acc = [x["block"] for x in exit_sites(b) if x["kind"] == "accept"]
            for lab, blks in eff.items():
                seen.add(lab)
                if acc and b.path_to([0], acc, (), set(blks)) is None:
                    must.add(lab)
        ctx.check(seen == {"sampling", "headers", "heights"}, "C19.remove.effects", "remove_height", "%s backend removes the header, the height index entry and the sampling metadata (%s)" % (backend, sorted(seen)), key="C19.remove.effects|" + backend)
        for lab in sorted(seen):
            ctx.check(lab in must, "C19.remove.unconditional", "remove_height", "%s backend: the %s record is removed on every accepting path" % (backend, lab), key="C19.remove.unconditional|%s|%s" % (backend, lab))
    # metadata merge with de-duplication
    for name, bodies in (("mem", ops["update_sampling_metadata"][0]), ("redb", ops["update_sampling_metadata"][1])):
        ok = False
        for b in bodies:
            if b is None:
                continue
            push = call_sites_with(ctx, b, ["*Vec*::push"])
            for p in push:
                if any(has_leaf(ctx.leaves(b.switch_discr_expr(s)), "call:*::contains") for s, lab, d in b.edge_conditions(p)):
                    ok = True
        ctx.check(ok, "C19.metadata.dedup", "update_sampling_metadata", "%s backend: a CID is appended only when not already recorded" % name, key="C19.metadata.dedup|" + name)
    # EitherStore forwarding
    n = 0
    for p in ctx.facts.paths("lumina_node"):
        if p.startswith("<lumina_node::store::either_store::EitherStore<L, R> as lumina_node::store::Store>::") and "::{" not in p:
            meth = p.rsplit("::", 1)[-1]
            fam = family_bodies(ctx, p)
            calls = []
            for b in fam:
                for blk in range(b.n):
                    t = b.blocks[blk]["t"]
                    if not b.blocks[blk]["cl"] and t["k"] == "call" and t.get("f", "").startswith("lumina_node::store::Store::"):
                        calls.append(t["f"].rsplit("::", 1)[-1])
            n += 1
            ctx.check(len(calls) == 2 and set(calls) == {meth}, "C19.either.forward", p, "EitherStore::%s forwards to the same method on both sides" % meth, key="C19.either.forward|" + meth)
    ctx.floor("C19.either.methods", "EitherStore trait methods", n, 15)
