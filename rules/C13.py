"""C13 — Merkle, row and share proofs are position-binding and sound."""
from engine.rules import Cmp, Has, per_iteration, require_guard

T = "celestia_types::"
CLAUSE = (
    "Decides the accepts-only-if skeleton of MerkleProof::verify, RowProof::verify and ShareProof::verify: "
    "on every CFG path to an accepting return the leaf-hash comparison, the recomputed-root comparison, an "
    "index-versus-total comparison (operand-separated; in verify or, by bounded helper following, in the "
    "recursive helper), the length/shape guards and the `?` on every inner proof verification are passed."
)
NOT_DECIDED = "That honest proofs are accepted; tendermint hashing; nmt-rs range-proof arithmetic."
ENGINES = "G (must-check, operand-separated comparisons, per-iteration obligations, helper following)"
ASSUMPTIONS = ["nmt-rs NamespaceProof::verify_range and tendermint MerkleHash are opaque and trusted"]


def run(ctx):
    f = ctx.anchor(T + "merkle_proof::MerkleProof::verify")
    if f:
        require_guard(ctx, f, Cmp(["call:*MerkleHash*::leaf_hash"], ["a1.leaf_hash"], name="leaf-hash == self.leaf_hash"), "C13.merkle.leaf")
        require_guard(
            ctx, f,
            Cmp(["a1.index", "a1.total", "a1.aunts"], ["a3"], pass_op="Eq", name="recomputed root(index,total,aunts) == root"),
            "C13.merkle.root",
        )
        require_guard(ctx, f, Cmp(["a1.index"], ["a1.total"], pass_op="Lt", name="index < total"), "C13.merkle.index-bound")
    f = ctx.anchor(T + "data_availability_header::RowProof::verify")
    if f:
        require_guard(ctx, f, Cmp(["len:a1.row_roots"], ["len:a1.proofs"], pass_op="Eq", name="row_roots.len() == proofs.len()"), "C13.row.len")
        require_guard(ctx, f, Cmp(["a1.end_row", "a1.start_row"], ["len:a1.proofs"], pass_op="Eq", name="row span == proofs.len()"), "C13.row.span")
        require_guard(ctx, f, Has("a2", name="root hash is a non-empty Sha256"), "C13.row.nonempty-root")
        per_iteration(ctx, f, ["a1.proofs"], Has("call:*MerkleProof::verify", "a1.row_roots", "a2"), "C13.row.inner", "each row root ?-verified against root")
    f = ctx.anchor(T + "share::proof::ShareProof::verify")
    if f:
        require_guard(ctx, f, Cmp(["len:a1.share_proofs"], ["a1.row_proof"], pass_op="Eq", name="share_proofs.len() == row_roots.len()"), "C13.share.len")
        require_guard(ctx, f, Cmp(["call:*NamespaceProof*::end_idx"], ["len:a1.data"], pass_op="Eq", name="shares needed == data.len()"), "C13.share.needed")
        require_guard(ctx, f, Has("call:*RowProof::verify", "a2", name="?row_proof.verify(root)"), "C13.share.rowproof")
        per_iteration(ctx, f, ["a1.share_proofs"], Has("call:*NamespaceProof*::is_of_absence"), "C13.share.presence", "absence proofs rejected")
        per_iteration(ctx, f, ["a1.share_proofs"], Cmp(["call:*NamespaceProof*::start_idx"], ["call:*NamespaceProof*::end_idx"], pass_op="Lt", name="start < end"), "C13.share.nonempty", "empty ranges rejected")
        per_iteration(ctx, f, ["a1.share_proofs", "a1.row_proof"], Has("call:*verify_range", "a1.data", "a1.namespace_id"), "C13.share.range", "each range ?-verified against its row root")
