"""C13 — Merkle, row and share proofs are position-binding and sound."""
from engine.rules import Cmp, Direct, Has, per_iteration, require_guard
from engine.mir import has_all, has_leaf

T = "celestia_types::"
CLAUSE = (
    "Decides the accepts-only-if skeleton of MerkleProof::verify, RowProof::verify and ShareProof::verify: "
    "on every CFG path to an accepting return the leaf-hash comparison, the recomputed-root comparison, an "
    "index-versus-total comparison (operand-separated; in verify or, by bounded helper following, in the "
    "recursive helper), the length/shape guards and the `?` on every inner proof verification are passed."
)
NOT_DECIDED = "That honest proofs are accepted; tendermint hashing; nmt-rs range-proof arithmetic."
ENGINES = "G (must-check, operand-separated comparisons, per-iteration obligations, helper following)"
ASSUMPTIONS = ["nmt-rs NamespaceProof::verify_range and tendermint MerkleHash are opaque and trusted"]


def run(ctx):
    f = ctx.anchor(T + "merkle_proof::MerkleProof::verify")
    if f:
        require_guard(ctx, f, Cmp(["call:*MerkleHash*::leaf_hash"], ["a1.leaf_hash"], name="leaf-hash == self.leaf_hash"), "C13.merkle.leaf")
        require_guard(
            ctx, f,
            Cmp(["a1.index", "a1.total", "a1.aunts"], ["a3"], pass_op="Eq", name="recomputed root(index,total,aunts) == root"),
            "C13.merkle.root",
        )
        require_guard(ctx, f, Cmp(["a1.index"], ["a1.total"], pass_op="Lt", name="index < total"), "C13.merkle.index-bound")
        # the recursive helper that recomputes the root: the walk's depth is decided by `total`
        # and the aunts must be consumed exactly (extra or missing aunts are rejected)
        from engine.rules import exit_sites, switches_on, call_expr
        from engine.mir import walk
        helper = None
        for x in exit_sites(f):
            pass
        for b in sorted(f.reachable_from([0])):
            t = f.blocks[b]["t"]
            if t["k"] == "call" and (t.get("rf") or "").startswith(T + "merkle_proof::") and ctx.fn(t["rf"]) is not None and t["rf"] != f.path:
                e = call_expr(f, b)
                if has_all(ctx.leaves(e), ["a1.index", "a1.total", "a1.aunts"]):
                    helper = ctx.fn(t["rf"])
        ctx.check(helper is not None, "C13.merkle.helper", f.path, "root recomputation helper taking index, total and aunts", key="C13.merkle.helper")
        if helper is not None:
            ctx.functions.add(helper.path)
            require_guard(ctx, helper, Direct(["*::is_empty", "*::len", "*::split_last", "*::split_first", "*::first", "*::last"], ["a4"], name="aunts consumed exactly: extra aunts at a leaf / missing aunts at an inner node are rejected"), "C13.merkle.aunts-exact")
            acc = [x["block"] for x in exit_sites(helper) if x["kind"] in ("accept", "may")]
            sw = [b for b in switches_on(ctx, helper, ["a2"]) if not has_leaf(ctx.leaves(helper.switch_discr_expr(b)), "a4")]
            bypass = helper.path_to([0], set(acc), removed_blocks=set(sw)) if sw else [0]
            ctx.check(bool(sw) and bypass is None, "C13.merkle.depth-by-total", helper.path, "every accepting path branches on `total` (leaf vs inner node), so the depth of the walk is bound to the claimed leaf count", key="C13.merkle.depth-by-total")
    f = ctx.anchor(T + "data_availability_header::RowProof::verify")
    if f:
        require_guard(ctx, f, Cmp(["len:a1.row_roots"], ["len:a1.proofs"], pass_op="Eq", name="row_roots.len() == proofs.len()"), "C13.row.len")
        require_guard(ctx, f, Cmp(["a1.end_row", "a1.start_row"], ["len:a1.proofs"], pass_op="Eq", name="row span == proofs.len()"), "C13.row.span")
        require_guard(ctx, f, Has("a2", name="root hash is a non-empty Sha256"), "C13.row.nonempty-root")
        per_iteration(ctx, f, ["a1.proofs"], Has("call:*MerkleProof::verify", "a1.row_roots", "a2"), "C13.row.inner", "each row root ?-verified against root")
    f = ctx.anchor(T + "share::proof::ShareProof::verify")
    if f:
        require_guard(ctx, f, Cmp(["len:a1.share_proofs"], ["a1.row_proof"], pass_op="Eq", name="share_proofs.len() == row_roots.len()"), "C13.share.len")
        require_guard(ctx, f, Cmp(["call:*NamespaceProof*::end_idx"], ["len:a1.data"], pass_op="Eq", name="shares needed == data.len()"), "C13.share.needed")
        require_guard(ctx, f, Has("call:*RowProof::verify", "a2", name="?row_proof.verify(root)"), "C13.share.rowproof")
        per_iteration(ctx, f, ["a1.share_proofs"], Has("call:*NamespaceProof*::is_of_absence"), "C13.share.presence", "absence proofs rejected")
        per_iteration(ctx, f, ["a1.share_proofs"], Cmp(["call:*NamespaceProof*::start_idx"], ["call:*NamespaceProof*::end_idx"], pass_op="Lt", name="start < end"), "C13.share.nonempty", "empty ranges rejected")
        per_iteration(ctx, f, ["a1.share_proofs", "a1.row_proof"], Has("call:*verify_range", "a1.data", "a1.namespace_id"), "C13.share.range", "each range ?-verified against its row root")
