"""C10 — Bitswap accepts Shwap blocks only when they verify against the DAH."""
from engine.rules import Cmp, Has, arm_regions, call_expr, calls_in, exit_sites, holds, require_guard, const_value
from engine.mir import has_all, has_leaf

CLAUSE = (
    "Decides over all CFG paths of ShwapMultihasher::hash (three macro instances): every accepting exit is past "
    "`?` on Block::decode(input), CidGeneric::read_bytes(block.cid), Id::try_from(cid), Container::decode(id, "
    "block.container), convert_cid(id), Store::get_by_height(id.block_height()) and container.verify(id, "
    "header.dah) where header is that store answer; the id type and container type of each arm agree and the arm "
    "is selected by the matching multihash code; any other code is rejected. get_block_container returns the "
    "container only past the comparison of the CID read from the block with the expected CID."
)
NOT_DECIDED = "Correctness of the verified containers themselves (C04-C06)."
ENGINES = "G (must-check per accepting exit), S (arm table)"
ASSUMPTIONS = []
H = "<lumina_node::p2p::shwap::ShwapMultihasher<S> as beetswap::multihasher::Multihasher<MAX_MH_SIZE>>::hash"
ARMS = {
    "celestia_types::row::ROW_ID_MULTIHASH_CODE": ("RowId", "celestia_types::row::Row"),
    "celestia_types::row_namespace_data::ROW_NAMESPACE_DATA_ID_MULTIHASH_CODE": ("RowNamespaceDataId", "celestia_types::row_namespace_data::RowNamespaceData"),
    "celestia_types::sample::SAMPLE_ID_MULTIHASH_CODE": ("SampleId", "celestia_types::sample::Sample"),
}


def run(ctx):
    f = ctx.anchor(H)
    if f:
        ex = [x for x in exit_sites(f) if x["kind"] in ("accept", "may")]
        ctx.floor("C10.hash.exits", "accepting exits of the multihasher (one per shwap container kind)", len(ex), 3)
        sw = [b for b in sorted(f.reachable_from([0])) if f.blocks[b]["t"]["k"] == "switch" and has_leaf(ctx.leaves(f.switch_discr_expr(b)), "multihash_code")]
        ctx.check(len(sw) >= 1, "C10.hash.dispatch", f.path, "dispatch on multihash_code", key="C10.hash.dispatch")
        code2val = {c: const_value(ctx, c) for c in ARMS}
        for x in ex:
            t = [x["block"]]
            # which arm is this exit in?
            arm = None
            if sw:
                for s, lab, d in f.edge_conditions(x["block"]):
                    if s == sw[0]:
                        for c, v in code2val.items():
                            if v == lab:
                                arm = c
            ctx.check(arm is not None, "C10.hash.arm", f.path, "accepting exit %s lies in a known multihash-code arm" % x["loc"], site=x["loc"], key="C10.hash.arm")
            if arm is None:
                continue
            idt, cont = ARMS[arm]
            short = cont.split("::")[-1]
            specs = [
                ("decode", Has("call:*Message::decode", "input")),
                ("cid", Has("call:*Cid*::read_bytes", "call:*Message::decode")),
                ("id", Has("call:*%s*try_from" % idt, "call:*Cid*::read_bytes")),
                ("container", Has("call:%s::decode" % cont, "call:*%s*try_from" % idt, "call:*Message::decode")),
                ("hash", Has("call:*convert_cid", "call:*%s*try_from" % idt)),
                ("header", Has("call:*Store::get_by_height", "call:*%s::block_height" % idt, "self.header_store")),
                ("verify", Has("call:%s::verify" % cont, "call:%s::decode" % cont, "call:*Store::get_by_height", "field:dah", "call:*%s*try_from" % idt)),
            ]
            for nm, sp in specs:
                okk, sites = holds(ctx, f, sp, t)
                ctx.check(okk, "C10.hash.%s" % nm, f.path, "%s arm: accepting exit is past ?%s" % (short, nm), site=sites[0] if sites else x["loc"], key="C10.hash.%s|%s" % (nm, short))
            ctx.check(has_all(ctx.leaves(x["expr"]), ["call:*convert_cid", "call:*%s*try_from" % idt]), "C10.hash.value", f.path, "%s arm returns the hash of the decoded id's CID" % short, key="C10.hash.value|" + short)
    g = ctx.anchor("lumina_node::p2p::shwap::get_block_container")
    if g:
        require_guard(ctx, g, Cmp(["call:*Cid*::read_bytes", "a2"], ["a1"], pass_op="Eq", name="cid in block == expected cid"), "C10.container.cid")
        require_guard(ctx, g, Has("call:*Message::decode", "a2", name="?Block::decode"), "C10.container.decode")
