"""C46 — Public data types round-trip through their wire and JSON forms (field coverage)."""
import re

from engine.rules import call_expr
from engine.mir import has_leaf

CLAUSE = (
    "Decides field coverage of every protobuf conversion pair in celestia-types (auto-discovered `TryFrom<Raw> for T` "
    "decoders and `From<T> for Raw` encoders; floor on their number): every field of the raw message is read by the "
    "decoder and every field of the domain type is read by the encoder (a value handed over whole to a helper "
    "counts as read), except for a frozen, reasoned exception list; the serde `try_from`/`into` bridges of the "
    "listed types name the same raw type on both sides. A field that is dropped or never filled cannot round-trip."
)
NOT_DECIDED = "Value equality after a round trip; JSON field naming."
ENGINES = "S/D (field coverage over conversion pairs), floors"
ASSUMPTIONS = ["prost encode/decode of the raw messages is the identity"]
# (direction, domain type suffix, raw type suffix) -> fields intentionally not read, with reason
EXCEPTIONS = {
    ("enc", "blob::Blob", "proto::blob::v2::BlobProto"): ({"commitment", "index"}, "BlobProto carries neither; the commitment is recomputed and the index is assigned by the square builder"),
    ("dec", "data_availability_header::RowProof", "celestia::core::v1::proof::RowProof"): ({"root"}, "the expected root is supplied by the verifier, the wire copy is ignored"),
    ("dec", "state::tx::AuthInfo", "cosmos::tx::v1beta1::AuthInfo"): ({"tip"}, "deprecated cosmos-sdk field"),
    ("enc", "nmt::namespace_proof::NamespaceProof", "proof::pb::Proof"): ({"0"}, "newtype: read through accessor methods on the whole value"),
    ("enc", "nmt::namespace_proof::NamespaceProof", "celestia::core::v1::proof::NmtProof"): ({"0"}, "newtype: read through accessor methods on the whole value"),
    ("enc", "share::Share", "shwap::Share"): ({"data", "is_parity"}, "serialised through Share::to_vec on the whole value; the parity flag is not part of the wire form (stated in the property)"),
}


def all_leaves(ctx, b):
    out = set()
    for blk in sorted(b.reachable_from([0])):
        t = b.blocks[blk]["t"]
        if t["k"] == "switch":
            out |= ctx.leaves(b.switch_discr_expr(blk))
        if t["k"] == "call":
            out |= ctx.leaves(call_expr(b, blk))
        for st in b.stmts(blk):
            out |= ctx.leaves(b.expr_rvalue(st["r"], (), blk, 0))
    return out


def run(ctx):
    pairs = []
    for p in ctx.facts.paths("celestia_types"):
        m = re.match(r"^<(celestia_types::[\w:]+) as core::convert::TryFrom<((?:celestia_proto|tendermint_proto)::[\w:]+)>>::try_from$", p)
        if m:
            pairs.append(("dec", m.group(1), m.group(2), p))
        m = re.match(r"^celestia_types::[\w:]+::<impl core::convert::From<(celestia_types::[\w:]+)> for ((?:celestia_proto|tendermint_proto)::[\w:]+)>::from$", p)
        if m:
            pairs.append(("enc", m.group(1), m.group(2), p))
    ctx.floor("C46.pairs", "protobuf conversion functions discovered", len(pairs), 60)
    seen_exc = set()
    for kind, dom, raw, p in pairs:
        b = ctx.fn(p)
        adt = ctx.facts.adt(raw if kind == "dec" else dom)
        if adt is None:
            ctx.notes.append("no ADT facts for %s" % (raw if kind == "dec" else dom))
            continue
        ctx.functions.add(p)
        fields = [f[0] for v in adt["variants"] for f in v["fields"]]
        ls = all_leaves(ctx, b)
        missing = {f for f in fields if not any(l == "a1." + f or l.startswith("a1." + f + ".") for l in ls)}
        key = (kind, dom.split("::", 1)[1], raw.split("::", 1)[1])
        allowed, why = EXCEPTIONS.get(key, (set(), ""))
        if key in EXCEPTIONS:
            seen_exc.add(key)
        extra = missing - allowed
        what = "%s %s %s %s: all %d fields read" % ("decoder of" if kind == "dec" else "encoder of", dom.split("::")[-1], "from" if kind == "dec" else "into", raw.split("::")[-1], len(fields))
        if allowed:
            what += " (except %s: %s)" % (sorted(allowed), why)
        ctx.check(not extra, "C46.coverage", p, what if not extra else "%s %s does not read field(s) %s of %s" % ("decoder of" if kind == "dec" else "encoder of", dom.split("::")[-1], sorted(extra), (raw if kind == "dec" else dom).split("::")[-1]),
                  key="C46.coverage|%s|%s|%s" % key)
    # element-for-element: a repeated field is converted by a length-preserving pipeline. A length-changing
    # adaptor (flatten / filter / skip / take / dedup ...) between a vector of the one form and the vector of
    # the other silently drops or shifts elements whose position carries meaning (absent fraud-proof shares,
    # row shares). Baseline on the pinned tree: none, except the frozen exception below.
    from engine.mir import std_tail as _tail
    LEN_CHANGING = ("Iterator::flatten", "Iterator::filter", "Iterator::filter_map", "Iterator::flat_map", "Iterator::skip", "Iterator::take", "Iterator::skip_while",
                    "Iterator::take_while", "Iterator::step_by", "Vec::dedup", "Vec::retain", "Vec::truncate", "Vec::dedup_by_key")
    POSITIONAL_OK = {("enc", "row::Row", "shwap::Row", "Iterator::take"): "only the original-data half of a row is transmitted (take(width / 2)); the decoder rebuilds the parity half"}
    npos = 0
    live = set()
    for kind, dom, raw, p in pairs:
        for q in ctx.facts.family(p):
            qb = ctx.fn(q)
            for blk in range(qb.n):
                t = qb.blocks[blk]["t"]
                if qb.blocks[blk]["cl"] or t["k"] != "call" or "f" not in t:
                    continue
                tl = _tail(t["f"])
                if tl in LEN_CHANGING:
                    k4 = (kind, dom.split("::", 1)[1], raw.split("::", 1)[1], tl)
                    live.add(k4)
                    ctx.check(k4 in POSITIONAL_OK, "C46.positional", q, "%s of %s uses the length-changing adaptor %s on a repeated field" % ("encoder" if kind == "enc" else "decoder", dom.split("::")[-1], tl) + (" - allowed: " + POSITIONAL_OK[k4] if k4 in POSITIONAL_OK else ""),
                              site=qb.loc(blk), key="C46.positional|%s|%s|%s|%s" % k4)
        npos += 1
    ctx.check(set(POSITIONAL_OK) <= live, "C46.positional.exception-live", "row::Row", "the frozen positional exception still corresponds to code", key="C46.positional.exception-live")
    for key in EXCEPTIONS:
        ctx.check(key in seen_exc, "C46.exception-live", "::".join(key[1:]), "exception entry still corresponds to a conversion", key="C46.exception-live|%s|%s|%s" % key)
