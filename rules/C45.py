"""C45 — Verified balances are backed by a proof to the header's app hash."""
from engine.rules import Cmp, Direct, Has, call_expr, call_sites_with, exit_sites, holds, per_iteration, require_guard
from engine.mir import has_all, has_leaf

G = "celestia_grpc::"
CLAUSE = (
    "Decides over all CFG paths of GrpcClient::get_verified_balance_impl: every accepting exit is past `?` on "
    "ProofChain::verify_membership(header.header.app_hash, [account bank key, \"bank\"], response.value) for the "
    "value that is then parsed and returned, past the success-code test, and the queried height derives from the "
    "header; inside verify_membership every key is matched against the operation key, an existence proof is required, "
    "ics23::verify_membership must return true for (proof, spec, current root, key, current leaf), the leaf of the "
    "next level is the root just proven, and leftover keys are rejected before proving against the supplied root."
)
NOT_DECIDED = "ics23 proof verification itself; non-membership (absence) proofs are not implemented by the client at all."
ENGINES = "G (must-check, per-iteration)"
ASSUMPTIONS = ["ics23::verify_membership is sound"]


def run(ctx):
    f = ctx.anchor(G + "client::GrpcClient::get_verified_balance_impl")
    if f:
        acc = [x for x in exit_sites(f) if x["kind"] in ("accept", "may")]
        ctx.check(len(acc) >= 1, "C45.exits", f.path, "accepting exits: %d" % len(acc), key="C45.exits")
        spec = Has("call:*ProofChain::verify_membership", "header.header.app_hash", "field:value", "address", name="?proof.verify_membership(header.app_hash, [bank key of the address, \"bank\"], response.value)")
        for x in acc:
            okk, sites = holds(ctx, f, spec, targets=[x["block"]])
            ctx.check(okk, "C45.proven", f.path, "verified balance returned at %s is backed by a membership proof to the header's app hash" % x["loc"], site=x["loc"],
                      key="C45.proven|" + ("value" if has_leaf(ctx.leaves(x["expr"]), "call:*parse") else "constant-zero"))
        require_guard(ctx, f, Has("field:code", name="ABCI error codes rejected"), "C45.code")
        q = call_sites_with(ctx, f, [G + "client::GrpcClient::abci_query", "*abci_query"])
        ok = bool(q) and all(has_all(ctx.leaves(call_expr(f, b)), ["call:*ExtendedHeader::height", "header", "address"]) for b in q)
        ctx.check(ok, "C45.query", f.path, "the query is made for the account's bank key at a height derived from the header", key="C45.query")
    v = ctx.anchor(G + "abci_proofs::ProofChain::verify_membership", main=False)
    if v:
        per_iteration(ctx, v, ["a3"], Cmp(["a3"], ["field:key"], pass_op="Eq", name="key == proof.key"), "C45.chain.key", "every key must equal its operation's key", must_dominate=False)
        per_iteration(ctx, v, ["a3"], Direct(["ics23::verify::verify_membership", "ics23::verify_membership", "*::verify_membership"]), "C45.chain.ics23", "every level must pass ics23::verify_membership", must_dominate=False)
        per_iteration(ctx, v, ["a3"], Has("call:*get_existence_proof", name="existence proof required"), "C45.chain.existence", "every level needs an existence proof", must_dominate=False)
        # the chain must be used up: an accepting exit is reached only when no proof operation is left
        # after the last key (otherwise the last verified root is the *next op's value*, never the
        # app hash). Accept on `chain.get(idx)` being None, or on chain.len() == / <= the number of
        # verified levels.
        from engine.rules import AnyOf, BoolIs, require_guard as _rg
        _rg(ctx, v, AnyOf(BoolIs(["*Option*::is_some"], False, args=["a1.0"]), BoolIs(["*Option*::is_none"], True, args=["a1.0"]),
                          Cmp(["len:a1"], [], pass_op="Eq"), Cmp(["len:a1"], [], pass_op="Le"),
                          name="no proof operation is left unused (chain.get(levels verified) is None)"), "C45.chain.all-used", cut_back_edges=False)
        ics = call_sites_with(ctx, v, ["*::verify_membership"])
        ok = bool(ics) and all(has_all(ctx.leaves(call_expr(v, b)), ["a1.0", "a4"]) and has_leaf(ctx.leaves(call_expr(v, b)), "a2") for b in ics)
        ctx.check(ok, "C45.chain.inputs", v.path, "ics23 verification consumes the chain's proofs, the supplied root and the supplied leaf", key="C45.chain.inputs")
