"""C42 — Task join handles resolve exactly when the task ends."""
from engine.rules import Has, aggregates, call_expr, call_sites_with, exit_sites, holder_locals, never_after, precedes, release_sites, require_guard, walk, yields, switches_on
from engine.mir import has_all, has_leaf

EX = "lumina_utils::executor::imp::"
TK = "lumina_utils::token::"
CLAUSE = (
    "Decides, for the native spawn and spawn_cancellable, over all CFG paths (normal, cancellation-while-suspended "
    "and the exit after completion): the task closure captures the TokenTriggerDropGuard created from the very "
    "token the returned JoinHandle wraps; inside the spawned coroutine the guard is neither dropped nor moved away "
    "on any path that reaches an await (it is live across every suspension point), its drop on the normal path lies "
    "behind the Ready edge of the user future's poll, on the cancellation path behind the drop of the awaited "
    "future, and it is dropped on the unwind path; the cancellable variant awaits a select over "
    "cancelation_token.cancelled() and the user future; TokenTriggerDropGuard::drop cancels the token on the Some "
    "edge and JoinHandle::join awaits Token::triggered on that token."
)
NOT_DECIDED = "tokio's task and CancellationToken semantics; the wasm executor (not compiled in this sandbox)."
ENGINES = "O (live-across-await, drop ordering incl. coroutine-drop path), D (same-token provenance)"
ASSUMPTIONS = ["tokio::spawn drops the task's future when it completes, panics or is aborted"]


def spawn_rules(ctx, name, cancellable):
    f = ctx.anchor(EX + name, main=False)
    if not f:
        return
    sp = call_sites_with(ctx, f, ["tokio::task::spawn::spawn"])
    ctx.check(len(sp) == 1, "C42.%s.spawn-site" % name, f.path, "one tokio::spawn", key="C42.%s.spawn-site" % name)
    if not sp:
        return
    e = call_expr(f, sp[0])
    cl = [a for a in e[3] if a[0] == "closure"]
    ctx.check(len(cl) == 1, "C42.%s.closure" % name, f.path, "spawned value is an async block built here", key="C42.%s.closure" % name)
    if not cl:
        return
    cl = cl[0]
    gi = [i for i, c in enumerate(cl[2]) if has_leaf(ctx.leaves(c), "call:" + TK + "Token::trigger_drop_guard")]
    ctx.check(len(gi) == 1, "C42.%s.captures-guard" % name, f.path, "the async block captures the trigger-drop guard", key="C42.%s.captures-guard" % name)
    # same token: the guard's token and the JoinHandle's token come from the same Token::new call
    jh = aggregates(ctx, f, "lumina_utils::executor::JoinHandle")
    same = False
    if gi and jh:
        gnew = {n[4] for n in walk(cl[2][gi[0]]) if n[0] == "call" and n[1] == TK + "Token::new"}
        hnew = {n[4] for fld in jh[0][1].values() for n in walk(fld) if n[0] == "call" and n[1] == TK + "Token::new"}
        same = bool(gnew) and gnew == hnew
    ctx.check(same, "C42.%s.same-token" % name, f.path, "JoinHandle wraps the token the guard was created from", key="C42.%s.same-token" % name)
    ex = [x for x in exit_sites(f)]
    ok = bool(ex) and all(has_leaf(ctx.leaves(x["expr"]), "call:" + TK + "Token::new") for x in ex)
    ctx.check(ok, "C42.%s.returns-handle" % name, f.path, "the returned handle is that JoinHandle", key="C42.%s.returns-handle" % name)
    if not gi:
        return
    c = ctx.fn(cl[1])
    ctx.functions.add(c.path)
    gname = c.captures[gi[0]]
    seeds = {(1, (str(gi[0]),))}
    hold = holder_locals(c, seeds)
    ys = yields(c)
    ctx.check(len(ys) >= 1, "C42.%s.awaits" % name, c.path, "suspension points: %d" % len(ys), key="C42.%s.awaits" % name)
    rel = release_sites(c, hold, seeds)
    # dropping the whole coroutine environment at the very end also releases a guard still held in it
    env_drops = [b for b in range(c.n) if not c.blocks[b]["cl"] and c.blocks[b]["t"]["k"] == "drop" and c.blocks[b]["t"]["p"]["l"] == 1 and not c.blocks[b]["t"]["p"].get("p")]
    ctx.check(len(rel) + len(env_drops) >= 1, "C42.%s.guard-drop" % name, c.path, "guard release points: %d" % (len(rel) + len(env_drops)), key="C42.%s.guard-drop" % name)
    if ys:
        never_after(ctx, c, rel, ys, "C42.%s.live-across-await" % name, "the guard is dropped or moved away before a suspension point (handle would resolve while the task still runs)")
    # normal path: guard released only behind the Ready edge of the poll of the user future
    polls = [b for b in sorted(c.reachable_from([0])) if c.blocks[b]["t"]["k"] == "switch" and has_leaf(ctx.leaves(c.switch_discr_expr(b)), "call:*Future::poll")]
    ctx.check(len(polls) >= 1, "C42.%s.poll" % name, c.path, "await of the task body found", key="C42.%s.poll" % name)
    want = ["future"] + (["call:tokio_util::sync::cancellation_token::CancellationToken::cancelled", "cancelation_token"] if cancellable else [])
    normal_rel = [b for b in rel + env_drops if b in c.reachable_from([0])]
    if polls and normal_rel:
        if cancellable:
            # the select! future polls both branches inside its poll_fn closure
            inner = set()
            for p in ctx.facts.family(c.path)[1:]:
                cb = ctx.fn(p)
                for blk in range(cb.n):
                    t = cb.blocks[blk]["t"]
                    if t["k"] == "call" and not cb.blocks[blk]["cl"]:
                        inner |= ctx.leaves(cb.expr_call(t, blk, 0))
            ls = ctx.leaves(c.switch_discr_expr(polls[0])) | inner
            okw = has_leaf(ls, "call:*CancellationToken::cancelled") and (has_leaf(ls, "future") or has_leaf(ls, "field:future") or any("future" in x for x in ls))
            ctx.check(okw, "C42.%s.select" % name, c.path, "the awaited select polls cancelation_token.cancelled() and the user future", key="C42.%s.select" % name)
            spec = Has("call:*Future::poll", name="task body completed (Ready)", awaits=True)
        else:
            spec = Has("call:*Future::poll", "future", name="user future completed (Ready)", awaits=True)
        require_guard(ctx, c, spec, "C42.%s.drop-after-completion" % name, targets=normal_rel, what="guard released only after the awaited task body returned Ready")
    # cancellation path: from each yield's drop edge, the awaited future is dropped before the guard
    okc = True
    n_paths = 0
    for y in ys:
        d0 = c.blocks[y]["t"].get("drop")
        if d0 is None:
            continue
        n_paths += 1
        region = c.reachable_from([d0])
        g_rel = [b for b in release_sites(c, hold, seeds) if b in region] + [b for b in env_drops if b in region]
        fut_drops = [b for b in region if c.blocks[b]["t"]["k"] == "drop" and c.blocks[b]["t"]["p"]["l"] not in hold and c.blocks[b]["t"]["p"]["l"] != 1]
        if not g_rel:
            okc = False
            continue
        removed = set()
        for fb in fut_drops:
            for dd, _ in c.out_edges(fb):
                removed.add((fb, dd))
        if not fut_drops or c.path_to([d0], set(g_rel), removed) is not None:
            okc = False
    ctx.check(okc and n_paths >= 1, "C42.%s.cancel-path" % name, c.path, "when the task is dropped while suspended, the awaited future is dropped first and then the guard (%d suspension points)" % n_paths, key="C42.%s.cancel-path" % name)
    # unwind path: some cleanup block drops the guard holder
    cl_rel = [b for b in release_sites(c, hold, seeds, include_cleanup=True) if c.blocks[b]["cl"]]
    ctx.check(len(cl_rel) >= 1, "C42.%s.unwind-path" % name, c.path, "the guard is dropped on the unwind (panic) path", key="C42.%s.unwind-path" % name)


def run(ctx):
    spawn_rules(ctx, "spawn", False)
    spawn_rules(ctx, "spawn_cancellable", True)
    d = ctx.anchor("<lumina_utils::token::TokenTriggerDropGuard as core::ops::drop::Drop>::drop")
    if d:
        can = call_sites_with(ctx, d, ["*CancellationToken::cancel"])
        ctx.check(len(can) == 1, "C42.guard.cancel-site", d.path, "drop cancels the token", key="C42.guard.cancel-site")
        if can:
            conds = d.edge_conditions(can[0])
            ok = any(has_leaf(ctx.leaves(d.switch_discr_expr(s)), "a1.token") and lab == 1 for s, lab, _ in conds)
            ctx.check(ok, "C42.guard.some-edge", d.path, "cancel() sits on the Some edge of self.token.take()", key="C42.guard.some-edge")
            ctx.check(has_leaf(ctx.leaves(call_expr(d, can[0])), "a1.token"), "C42.guard.own-token", d.path, "the cancelled token is the guard's own", key="C42.guard.own-token")
    j = ctx.anchor("lumina_utils::executor::JoinHandle::join")
    if j:
        require_guard(ctx, j, Has("call:*Future::poll", "call:" + TK + "Token::triggered", "self", name="join awaits self.0.triggered()", awaits=True), "C42.join.awaits")
    t = ctx.anchor(TK + "Token::triggered")
    if t:
        require_guard(ctx, t, Has("call:*Future::poll", "call:*CancellationToken::cancelled", "self", name="triggered awaits token.cancelled()", awaits=True), "C42.token.triggered")
    g = ctx.anchor(TK + "Token::trigger_drop_guard", main=False)
    if g:
        ex = [x for x in exit_sites(g)]
        ok = bool(ex) and all(has_all(ctx.leaves(x["expr"]), ["a1.token"]) for x in ex)
        ctx.check(ok, "C42.token.guard-of-self", g.path, "the guard holds a clone of this token", key="C42.token.guard-of-self")
