"""C04 — A verified sample is the share at the requested coordinates."""
from engine.rules import Cmp, Has, arm_regions, call_expr, calls_in, require_guard, switches_on, variant_index
from engine.mir import has_all

T = "celestia_types::"
N = "lumina_node::"
CLAUSE = (
    "Decides, over all CFG paths of Sample::verify: the root handed to verify_range is the row root of the "
    "id's row on the Row arm and the column root of the id's column on the Col arm; the value returned is the "
    "(honoured) result of verify_range over self.share; and every accepting path passes a comparison binding "
    "the proof's own position (start/end index) to the requested coordinate (operand-separated: proof side vs "
    "id side). Also: Sample::from_raw rejects absence proofs and missing parts, and both transport decoders "
    "(shrex ResponseCodec, bitswap multihasher via C10) return Ok only past `?` on verify."
)
NOT_DECIDED = "That honest samples are accepted after a round trip; nmt-rs proof arithmetic; which coordinate each axis must bind (arm-sensitivity of the position guard)."
ENGINES = "G (must-check), arm regions, O (ordering of decode -> verify -> accept)"
ASSUMPTIONS = ["nmt-rs verify_range checks the proof against the root at the proof's own range (confirmed by reading nmt-rs 0.2.5)"]


def run(ctx):
    f = ctx.anchor(T + "sample::Sample::verify")
    if f:
        # root selection per proof axis
        sws = switches_on(ctx, f, ["a1.proof_type"], discr_only=True)
        ctx.check(len(sws) >= 1, "C04.verify.axis-switch", f.path, "verify branches on self.proof_type", key="C04.axis-switch")
        if sws:
            regs = arm_regions(f, sws[0])
            row_i = variant_index(ctx, T + "eds::AxisType", "Row")
            col_i = variant_index(ctx, T + "eds::AxisType", "Col")
            lab = {}
            for d, l in f.out_edges(sws[0]):
                lab[l] = d
            def arm(idx):
                if idx in regs:
                    return regs[idx]
                return regs.get("otherwise", set())
            row_calls = calls_in(f, arm(row_i), ["*DataAvailabilityHeader::row_root"])
            col_calls = calls_in(f, arm(col_i), ["*DataAvailabilityHeader::column_root"])
            bad_row = calls_in(f, arm(row_i), ["*DataAvailabilityHeader::column_root"])
            bad_col = calls_in(f, arm(col_i), ["*DataAvailabilityHeader::row_root"])
            ok = bool(row_calls) and not bad_row and all(
                has_all(ctx.leaves(call_expr(f, b)), ["call:*SampleId::row_index", "a2", "a3"]) for b in row_calls)
            ctx.check(ok, "C04.verify.root-row", f.path, "Row arm takes dah.row_root(id.row_index())", site=f.loc(row_calls[0]) if row_calls else None, key="C04.root-row")
            ok = bool(col_calls) and not bad_col and all(
                has_all(ctx.leaves(call_expr(f, b)), ["call:*SampleId::column_index", "a2", "a3"]) for b in col_calls)
            ctx.check(ok, "C04.verify.root-col", f.path, "Col arm takes dah.column_root(id.column_index())", site=f.loc(col_calls[0]) if col_calls else None, key="C04.root-col")
        require_guard(ctx, f, Has(["call:*DataAvailabilityHeader::row_root", "call:*DataAvailabilityHeader::column_root"], name="missing root rejected"), "C04.verify.root-present")
        require_guard(
            ctx, f,
            Has("call:*NamespaceProof*::verify_range", "a1.proof", "a1.share", ["call:*DataAvailabilityHeader::row_root", "call:*DataAvailabilityHeader::column_root"],
                name="result of proof.verify_range(root, [share], share.namespace()) honoured"),
            "C04.verify.range-proof")
        # the requested in-axis coordinate must exist: nmt-rs accepts non-perfect trees, so an honest proof of
        # position p also verifies when relabelled to some c >= width (F14)
        require_guard(ctx, f, Cmp(["a2", ["call:*SampleId::column_index", "call:*SampleId::row_index"]], ["call:*DataAvailabilityHeader::square_width", "a3"], pass_op="Lt", name="in-axis coordinate < dah.square_width()"), "C04.verify.coordinate-in-range")
        pos = Cmp(["a1.proof"], ["a2"], name="proof position (start/end index) bound to the requested coordinate")
        require_guard(ctx, f, pos, "C04.verify.position")
        # the comparison must be made on the full-width proof index: a narrowing conversion of
        # start_idx()/end_idx() (u32) before the comparison lets `65536 + x` pass for coordinate `x`
        from engine.rules import Guards, narrowing_casts
        g = Guards(ctx, f)
        bad = []
        for b, _p, _i in g.guard_blocks(pos):
            bad += [(b, n) for n in narrowing_casts(ctx, f.switch_discr_expr(b), ["call:*::start_idx", "call:*::end_idx"], 32)]
        ctx.check(not bad, "C04.verify.position-width", f.path,
                  "the proof's u32 start/end index is compared at full width (no narrowing cast before the comparison)" + (": cast to %s" % bad[0][1][2] if bad else ""),
                  site=f.loc(bad[0][0]) if bad else None, key="C04.verify.position-width")
    f = ctx.anchor(T + "sample::Sample::from_raw")
    if f:
        require_guard(ctx, f, Has("call:*NamespaceProof*::is_of_absence", name="absence proofs rejected"), "C04.from_raw.presence")
        require_guard(ctx, f, Has("a2.proof", name="missing proof rejected"), "C04.from_raw.proof")
        require_guard(ctx, f, Has("a2.share", name="missing share rejected"), "C04.from_raw.share")
        require_guard(ctx, f, Has("call:*NamespaceProof::total_leaves", name="single-leaf proof required"), "C04.from_raw.single")
        s1 = switches_on(ctx, f, ["call:*SampleId::row_index", "call:*NamespaceProof::total_leaves"])
        s2 = switches_on(ctx, f, ["call:*SampleId::column_index", "call:*NamespaceProof::total_leaves"])
        ctx.check(bool(s1) and bool(s2), "C04.from_raw.quadrant", f.path, "ODS/parity decision reads both indices and the square size", site=f.loc(s1[0]) if s1 else None, key="C04.quadrant")
    f = ctx.anchor("<celestia_types::sample::Sample as lumina_node::p2p::shrex::codec::ResponseCodec>::decode_and_verify")
    if f:
        require_guard(ctx, f, Has("call:*Sample::from_raw", "a1", "a2", name="?Sample::from_raw(req, decoded)"), "C04.codec.from_raw")
        require_guard(ctx, f, Has("call:*Sample::verify", "a2", "a3", name="?sample.verify(req, dah)"), "C04.codec.verify")
