"""C23 — Redb schema migration preserves stored ranges."""
from engine.rules import Cmp, Has, call_expr, call_sites_with, const_value, exit_sites, never_after, require_guard
from engine.mir import has_all, has_leaf
from rules.storelib import RB, REDB_WRITES, tx_closure

CLAUSE = (
    "Decides over all CFG paths of the schema set-up transaction in RedbStore::new: every table write (including "
    "the migrations, which run in the same transaction) is past the schema_version > SCHEMA_VERSION comparison whose "
    "failing edge only rejects (so write_tx aborts and the database is untouched); migrate_v2_to_v3 writes under "
    "SAMPLED_RANGES_KEY a value derived from get_ranges(v2::SAMPLED_RANGES_KEY), removes the old key only after that "
    "write and bumps the version last; migrate_v1_to_v2 writes under HEADER_RANGES_KEY a value derived from iterating "
    "the old table, deletes that table only after reading it, and bumps the version last; both migrations return "
    "early (no write) when the stored version is already high enough."
)
NOT_DECIDED = "Equality of the reported ranges before and after (value-level)."
ENGINES = "G (refusal precedes writes), O (read -> write -> delete -> version bump), D (written value provenance), K (SCHEMA_VERSION = 3)"
ASSUMPTIONS = ["redb transaction atomicity"]


def run(ctx):
    c = tx_closure(ctx, "new")
    ctx.check(c is not None, "C23.setup.closure", RB + "RedbStore::new", "schema set-up transaction closure found", key="C23.setup.closure")
    if c is not None:
        ctx.functions.add(c.path)
        writes = c.call_sites(REDB_WRITES + [RB + "migrate_v1_to_v2", RB + "migrate_v2_to_v3"])
        ctx.floor("C23.setup.writes", "writes/migrations in the set-up transaction", len(writes), 4)
        # on the `Some(version)` arm: refusal of newer schemas precedes migrations
        mig = c.call_sites([RB + "migrate_v1_to_v2", RB + "migrate_v2_to_v3"])
        ctx.check(len(mig) == 2, "C23.setup.migrations", c.path, "both migrations are called", key="C23.setup.migrations")
        if mig:
            require_guard(ctx, c, Cmp(["call:*Table*::get", "call:*AccessGuard*::value"], ["const:*SCHEMA_VERSION"], pass_op="Le", name="stored schema version <= SCHEMA_VERSION"), "C23.setup.refuse-newer", targets=mig)
        order = c.call_sites([RB + "migrate_v1_to_v2"]) and c.call_sites([RB + "migrate_v2_to_v3"])
        if len(mig) == 2:
            a, b = c.call_sites([RB + "migrate_v1_to_v2"])[0], c.call_sites([RB + "migrate_v2_to_v3"])[0]
            ctx.check(c.dominates(a, b), "C23.setup.order", c.path, "v1->v2 runs before v2->v3", key="C23.setup.order")
    ctx.check(const_value(ctx, RB + "SCHEMA_VERSION") == 3, "C23.K.version", RB + "SCHEMA_VERSION", "SCHEMA_VERSION = 3 (migrations cover 1->2->3)", key="C23.K.version")
    m3 = ctx.anchor(RB + "migrate_v2_to_v3")
    if m3:
        sets = call_sites_with(ctx, m3, [RB + "set_ranges"])
        rem = call_sites_with(ctx, m3, ["redb::table::Table::<*>::remove"])
        bump = call_sites_with(ctx, m3, ["redb::table::Table::<*>::insert"])
        ok = len(sets) == 1 and len(rem) == 1 and len(bump) == 1
        ctx.check(ok, "C23.v3.sites", m3.path, "one write of the new key, one removal of the old key, one version bump", key="C23.v3.sites")
        if ok:
            e = call_expr(m3, sets[0])
            ctx.check(has_all(ctx.leaves(e), ["const:" + RB + "SAMPLED_RANGES_KEY", "call:" + RB + "get_ranges", "const:" + RB + "v2::SAMPLED_RANGES_KEY"]), "C23.v3.value", m3.path,
                      "value written under SAMPLED_RANGES_KEY derives from get_ranges(v2::SAMPLED_RANGES_KEY)", site=m3.loc(sets[0]), key="C23.v3.value")
            ctx.check(has_leaf(ctx.leaves(call_expr(m3, rem[0])), "const:" + RB + "v2::SAMPLED_RANGES_KEY"), "C23.v3.remove-old", m3.path, "the removed key is the v2 key", key="C23.v3.remove-old")
            ctx.check(m3.dominates(sets[0], rem[0]) and m3.dominates(rem[0], bump[0]), "C23.v3.order", m3.path, "write new key -> remove old key -> bump version", key="C23.v3.order")
            ctx.check(has_leaf(ctx.leaves(call_expr(m3, bump[0])), "lit:3"), "C23.v3.bump", m3.path, "version bumped to 3", key="C23.v3.bump")
            require_guard(ctx, m3, Cmp(["call:*Table*::get"], ["lit:3"], pass_op="Lt", name="migration only when stored version < 3"), "C23.v3.guard", targets=sets + rem + bump)
    m2 = ctx.anchor(RB + "migrate_v1_to_v2")
    if m2:
        ins = call_sites_with(ctx, m2, ["redb::table::Table::<*>::insert"])
        dele = call_sites_with(ctx, m2, ["*WriteTransaction::delete_table"])
        it = call_sites_with(ctx, m2, ["*ReadableTable*::iter", "*Table*::iter", "*::iter"])
        ok = len(ins) == 2 and len(dele) == 1
        ctx.check(ok, "C23.v2.sites", m2.path, "one ranges write, one version bump, one table deletion", key="C23.v2.sites")
        if ok:
            rng = [b for b in ins if has_leaf(ctx.leaves(call_expr(m2, b)), "const:" + RB + "HEADER_RANGES_KEY")]
            bump = [b for b in ins if b not in rng]
            ctx.check(len(rng) == 1 and has_all(ctx.leaves(call_expr(m2, rng[0])), ["call:*Iterator::collect", "call:*WriteTransaction::open_table"]), "C23.v2.value", m2.path,
                      "value written under HEADER_RANGES_KEY derives from iterating the old table", key="C23.v2.value")
            if rng and bump:
                ctx.check(m2.dominates(dele[0], rng[0]) or m2.dominates(rng[0], dele[0]), "C23.v2.delete-after-read", m2.path, "old table deleted only after it was read (collect precedes delete)", key="C23.v2.delete-after-read")
                coll = call_sites_with(ctx, m2, ["*Iterator::collect"])
                ctx.check(bool(coll) and all(m2.dominates(cb, dele[0]) for cb in coll), "C23.v2.read-first", m2.path, "the old table is fully read before delete_table", key="C23.v2.read-first")
                ctx.check(m2.dominates(rng[0], bump[0]) and has_leaf(ctx.leaves(call_expr(m2, bump[0])), "lit:2"), "C23.v2.bump-last", m2.path, "version bumped to 2 after the ranges were written", key="C23.v2.bump-last")
            require_guard(ctx, m2, Cmp(["call:*Table*::get"], ["lit:2"], pass_op="Lt", name="migration only when stored version < 2"), "C23.v2.guard", targets=ins + dele)
