"""C34 — Data sampling respects concurrency limits and recency order."""
from engine.rules import Cmp, Direct, Has, call_expr, call_sites_with, const_value, exit_sites, require_guard, walk
from engine.mir import direct_arg_leaves, has_all, has_leaf, norm_proj

D = "lumina_node::daser::"
W = D + "Worker::<S>::"
CLAUSE = (
    "Decides over all CFG paths of the scheduler: a sampling future is pushed only past the comparison of "
    "sampling_futs.len() with the chosen limit (pass edge: len < limit), where the limit is one of the three "
    "frozen alternatives - 0 when the block is in the prunable area and the pruner backlog is at least "
    "PRUNER_THRESHOLD = 512, concurrency_limit + additional_headersub_concurency when the block is the stored head, "
    "concurrency_limit otherwise; the candidate is queue.pop_head() (highest queued height) and is put back when the "
    "limit is reached; the sampling-window test on the candidate's header precedes scheduling; update_queue rebuilds "
    "the queue as stored - sampled - timed_out - ongoing - will_be_pruned and records the stored head; the scheduled "
    "height is added to `ongoing`."
)
NOT_DECIDED = "Behaviour over insertion / completion / pruner-report schedules."
ENGINES = "G (limit guard before push), S (limit table), D (queue provenance), K"
ASSUMPTIONS = ["BlockRanges set operators (C17)"]


def run(ctx):
    ctx.check(const_value(ctx, D + "PRUNER_THRESHOLD") == 512, "C34.K.threshold", D + "PRUNER_THRESHOLD", "PRUNER_THRESHOLD = 512", key="C34.K.threshold")
    f = ctx.anchor(W + "schedule_next_sample_block")
    if f:
        push = [b for b in call_sites_with(ctx, f, ["*FuturesUnordered*::push"]) if has_leaf(ctx.leaves(call_expr(f, b)), "self.sampling_futs")]
        ctx.check(len(push) == 1, "C34.push.site", f.path, "one place starts a sampling future", key="C34.push.site")
        if push:
            require_guard(ctx, f, Cmp(["self.sampling_futs", ["call:*::len"]], [["self.concurrency_limit", "lit:0"]], pass_op="Lt", name="sampling_futs.len() < chosen concurrency limit"), "C34.limit", targets=push)
            require_guard(ctx, f, Has("call:" + W + "in_sampling_window", "call:*ExtendedHeader::time", name="candidate is inside the sampling window"), "C34.window", targets=push)
            require_guard(ctx, f, Has("call:*BlockRanges::pop_head", "self.queue", name="candidate = queue.pop_head()"), "C34.candidate", targets=push)
        # the limit table: the compared limit is a phi of exactly {0, limit + allowance, limit}
        lim = None
        for b in sorted(f.reachable_from([0])):
            if f.blocks[b]["t"]["k"] == "switch":
                e = f.switch_discr_expr(b)
                for n in walk(e):
                    if n[0] == "bin" and n[1] in ("Ge", "Lt", "Le", "Gt") and has_leaf(ctx.leaves(n), "self.sampling_futs") and has_leaf(ctx.leaves(n), "self.concurrency_limit"):
                        lim = n[3] if has_leaf(ctx.leaves(n[2]), "self.sampling_futs") else n[2]
        ok = False
        if lim is not None and lim[0] == "phi":
            alts = []
            for a in lim[1]:
                ls = ctx.leaves(a)
                if a[0] == "const" and a[1] == 0:
                    alts.append("zero")
                elif has_all(ls, ["self.concurrency_limit", "self.additional_headersub_concurency"]):
                    alts.append("head")
                elif has_leaf(ls, "self.concurrency_limit"):
                    alts.append("normal")
                else:
                    alts.append("other")
            ok = sorted(alts) == ["head", "normal", "zero"]
        ctx.check(ok, "C34.limit-table", f.path, "limit in {0, concurrency_limit + headersub allowance, concurrency_limit}", key="C34.limit-table")
        # which arm: zero <- prunable & backlog >= threshold ; head <- height == head_height
        zsw = [b for b in sorted(f.reachable_from([0])) if f.blocks[b]["t"]["k"] == "switch" and has_all(ctx.leaves(f.switch_discr_expr(b)), ["self.num_of_prunable_blocks", "const:" + D + "PRUNER_THRESHOLD"])]
        psw = [b for b in sorted(f.reachable_from([0])) if f.blocks[b]["t"]["k"] == "switch" and has_leaf(ctx.leaves(f.switch_discr_expr(b)), "self.highest_prunable_height")]
        hsw = [b for b in sorted(f.reachable_from([0])) if f.blocks[b]["t"]["k"] == "switch" and has_leaf(ctx.leaves(f.switch_discr_expr(b)), "self.head_height")]
        ctx.check(bool(zsw) and bool(psw) and bool(hsw), "C34.limit-conditions", f.path, "limit chosen from (prunable area, pruner backlog >= threshold, is head)", key="C34.limit-conditions")
        back = [b for b in call_sites_with(ctx, f, ["*BlockRanges::insert_relaxed"]) if has_leaf(direct_arg_leaves(call_expr(f, b)[3][0]), "self.queue")]
        ctx.check(len(back) == 1, "C34.put-back", f.path, "a candidate that cannot start is put back into the queue", key="C34.put-back")
        ong = [b for b in call_sites_with(ctx, f, ["*BlockRanges::insert_relaxed"]) if has_leaf(direct_arg_leaves(call_expr(f, b)[3][0]), "self.ongoing")]
        ok = len(ong) == 1 and bool(push) and f.dominates(push[0], ong[0])
        ctx.check(ok, "C34.ongoing", f.path, "the scheduled height is recorded in `ongoing`", key="C34.ongoing")
    u = ctx.anchor(W + "update_queue")
    if u:
        okq = False
        okh = False
        for b in sorted(u.reachable_from([0])):
            for i, st in enumerate(u.stmts(b)):
                pr = norm_proj(st["d"].get("p"))
                if pr and pr[-1] == "queue":
                    ls = ctx.leaves(u.expr_rvalue(st["r"], (), b, 0))
                    okq = has_all(ls, ["call:lumina_node::store::Store::get_stored_header_ranges", "call:lumina_node::store::Store::get_sampled_ranges", "self.timed_out", "self.ongoing", "self.will_be_pruned", "call:*Sub*::sub"]) and not has_leaf(ls, ["call:*Add*::add", "call:*BitOr*::bitor"])
                if pr and pr[-1] == "head_height":
                    okh = has_all(ctx.leaves(u.expr_rvalue(st["r"], (), b, 0)), ["call:*BlockRanges::head", "call:lumina_node::store::Store::get_stored_header_ranges"])
        ctx.check(okq, "C34.queue", u.path, "queue = stored - sampled - timed_out - ongoing - will_be_pruned", key="C34.queue")
        ctx.check(okh, "C34.head", u.path, "head_height = stored.head()", key="C34.head")

    # promises made to the pruner outlive connections: `will_be_pruned` only ever grows, through the
    # grant in on_want_to_prune. No function of the daser assigns the field (a reset next to the resets of
    # queue / ongoing / timed_out forgets the promises) or mutates it by anything but insert_relaxed.
    from engine.mir import std_tail as _tail
    from engine.rules import root_fn as _root
    nw = 0
    for p in ctx.facts.paths("lumina_node"):
        if not p.startswith((D, "<" + D)):
            continue
        wb = ctx.fn(p)
        wb.defs()
        for b in sorted(wb.reachable_from([0])):
            for i, st in enumerate(wb.stmts(b)):
                pr = norm_proj(st["d"].get("p"))
                if pr and pr[-1] == "will_be_pruned":
                    nw += 1
                    ctx.violate("C34.promises.kept", wb.path, "will_be_pruned is assigned (promises to the pruner are forgotten)", site=wb.loc(b, i), key="C34.promises.kept|assign|" + _root(wb.path))
            t = wb.blocks[b]["t"]
            if t["k"] == "call" and "f" in t and t["args"]:
                a0 = t["args"][0]
                pl = a0.get("mv") or a0.get("cp")
                if pl and not pl.get("p") and pl["l"] in wb.mutref:
                    base, proj, _x = wb.mutref[pl["l"]]
                    names = [x for x in (proj or ()) if isinstance(x, str) and x != "*"]
                    if names and names[-1] == "will_be_pruned":
                        nw += 1
                        nm = t.get("rf") or t["f"]
                        ctx.check(nm.endswith("BlockRanges::insert_relaxed"), "C34.promises.kept", wb.path, "will_be_pruned is only extended (insert_relaxed), found %s" % nm.rsplit("::", 2)[-1], site=wb.loc(b), key="C34.promises.kept|call|%s|%s" % (_root(wb.path), nm.rsplit("::", 1)[-1]))
    ctx.floor("C34.promises.sites", "mutation sites of will_be_pruned", nw, 1)
