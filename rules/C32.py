"""C32 — Header-ex requests are retried boundedly and answered once."""
from engine.rules import Cmp, Direct, Has, aggregates, call_expr, call_sites_with, const_value, exit_sites, require_guard, variant_index, root_fn, all_call_sites
from engine.mir import has_all, has_leaf, norm_proj

C = "lumina_node::p2p::header_ex::client::"
H = C + "HeaderExClientHandler::<S>::"
U = "lumina_node::p2p::utils::"
CLAUSE = (
    "Decides: MAX_TRIES = 3 and a new request starts with tries_left = MAX_TRIES; every non-head send is followed "
    "by `tries_left -= 1` before the request state is stored (send -> decrement -> reqs.insert in dominance order); "
    "can_retry refuses head requests, tries_left == 0 and closed callers; next_peer_kind maps (1, Any) -> Archival and "
    "(1, Trusted) -> TrustedArchival; every arm of the pending-request peer filter requires is_connected(); "
    "OneshotSender sends through `self.tx.take()` only (at most one answer) and its Drop sends the stored error "
    "(an answer whenever the sender goes away unused)."
)
NOT_DECIDED = "Delivery under arbitrary peer populations and timings."
ENGINES = "K, O (send -> decrement -> store), G, S (peer-kind table), W (single send path)"
ASSUMPTIONS = []


def run(ctx):
    ctx.check(const_value(ctx, C + "MAX_TRIES") == 3, "C32.K.max-tries", C + "MAX_TRIES", "MAX_TRIES = 3", key="C32.K.max-tries")
    o = ctx.anchor(H + "on_send_request", main=False)
    if o:
        ags = aggregates(ctx, o, C + "State")
        ok = bool(ags) and all(has_leaf(ctx.leaves(a[1].get("tries_left", ("unknown",))), "const:" + C + "MAX_TRIES") for a in ags)
        ctx.check(ok, "C32.init", o.path, "a new request starts with tries_left = MAX_TRIES", key="C32.init")
    s = ctx.anchor(H + "schedule_pending_requests_impl", main=False)
    if s:
        send = call_sites_with(ctx, s, ["*RequestSender::send_request"])
        ins = [b for b in call_sites_with(ctx, s, ["*HashMap*::insert"]) if has_leaf(ctx.leaves(call_expr(s, b)), "a1.reqs")]
        dec = []
        for b in sorted(s.reachable_from([0])):
            for i, st in enumerate(s.stmts(b)):
                pr = norm_proj(st["d"].get("p"))
                if pr and pr[-1] == "tries_left":
                    e = s.expr_rvalue(st["r"], (), b, 0)
                    from engine.mir import walk
                    if any(n[0] == "bin" and n[1].startswith("Sub") for n in walk(e)):
                        dec.append(b)
        ok = len(send) == 1 and len(ins) == 1 and len(dec) >= 1 and all(s.dominates(send[0], d) and s.dominates(d, ins[0]) for d in dec)
        ctx.check(ok, "C32.decrement", s.path, "send_request -> tries_left -= 1 -> reqs.insert, on every path", site=s.loc(dec[0]) if dec else None, key="C32.decrement")
        # W: the budget only ever goes down - the decrements above are the only assignments to
        # `tries_left` in the header-ex client (the initial value is part of the State aggregate)
        writes = []
        for p in ctx.facts.paths("lumina_node"):
            if not p.startswith(("lumina_node::p2p::header_ex::client::", "<lumina_node::p2p::header_ex::client::")):
                continue
            wb = ctx.fn(p)
            for b in sorted(wb.reachable_from([0])):
                for i, st in enumerate(wb.stmts(b)):
                    pr = norm_proj(st["d"].get("p"))
                    if pr and pr[-1] == "tries_left":
                        e = wb.expr_rvalue(st["r"], (), b, 0)
                        from engine.mir import walk as _walk
                        down = any(n[0] == "bin" and n[1].startswith("Sub") for n in _walk(e)) and not any(n[0] == "bin" and n[1].startswith(("Add", "Mul", "Shl")) for n in _walk(e))
                        writes.append((wb, b, i, down))
        ctx.floor("C32.budget.writes", "assignments to tries_left in the header-ex client", len(writes), 1)
        for wb, b, i, down in writes:
            ctx.check(down and wb.path == s.path, "C32.budget.monotone", wb.path, "tries_left is only ever decremented, and only in the send path", site=wb.loc(b, i), key="C32.budget.monotone|%s|%s" % (root_fn(wb.path), "down" if down else "other"))
        flt = None
        for p in ctx.facts.family(s.path)[1:]:
            cb = ctx.fn(p)
            if cb.call_sites(["lumina_node::peer_tracker::Peer::is_connected"]):
                flt = cb
        ctx.check(flt is not None, "C32.filter.found", s.path, "pending-request peer filter found", key="C32.filter.found")
        if flt is not None:
            ctx.functions.add(flt.path)
            require_guard(ctx, flt, Has("call:lumina_node::peer_tracker::Peer::is_connected", name="every arm requires is_connected()"), "C32.filter.connected")
            if send:
                e = call_expr(s, send[0])
                ctx.check(has_leaf(ctx.leaves(e[3][1]), "closure:" + flt.path), "C32.send.filtered", s.path, "requests go to peers from that filter", key="C32.send.filtered")
    r = ctx.anchor(C + "can_retry", main=False)
    if r:
        require_guard(ctx, r, Has("call:*HeaderRequestExt*::is_head_request", name="head requests are not retried here"), "C32.retry.head")
        require_guard(ctx, r, Has("a1.tries_left", name="tries_left == 0 -> no retry"), "C32.retry.tries")
        require_guard(ctx, r, Has("call:" + U + "OneshotSender::<T>::is_closed", name="closed caller -> no retry"), "C32.retry.closed")
    n = ctx.anchor(C + "next_peer_kind", main=False)
    if n:
        pk = C + "PeerKind"
        want = {"Archival": "Any", "TrustedArchival": "Trusted"}
        got = {}
        for b, fields, loc in aggregates(ctx, n, pk):
            pass
        for b in sorted(n.reachable_from([0])):
            for i, st in enumerate(n.stmts(b)):
                r_ = st["r"]
                if r_["k"] == "agg" and r_.get("adt") == pk and r_.get("variant") in want:
                    conds = n.edge_conditions(b)
                    tries1 = any(lab == 1 and has_leaf(ctx.leaves(n.switch_discr_expr(sw)), "a1.tries_left") for sw, lab, _ in conds)
                    kinds = [lab for sw, lab, _ in conds if has_leaf(ctx.leaves(n.switch_discr_expr(sw)), "a1.peer_kind")]
                    got[r_["variant"]] = (tries1, kinds)
        ok = True
        for v, src in want.items():
            g = got.get(v)
            ok = ok and g is not None and g[0] and variant_index(ctx, pk, src) in g[1]
        ctx.check(ok, "C32.last-try-archival", n.path, "(1, Any) -> Archival and (1, Trusted) -> TrustedArchival", key="C32.last-try-archival")
    m = ctx.anchor(U + "OneshotSender::<T>::maybe_send", main=False)
    if m:
        snd = call_sites_with(ctx, m, ["tokio::sync::oneshot::Sender::<T>::send"])
        ok = len(snd) == 1 and has_all(ctx.leaves(call_expr(m, snd[0])[3][0]), ["call:*Option*::take", "a1.tx"])
        ctx.check(ok, "C32.once.take", m.path, "the channel is used through self.tx.take() (at most one send)", key="C32.once.take")
    others = [b.path for b, blk in all_call_sites(ctx, ["lumina_node"], ["tokio::sync::oneshot::Sender::<T>::send"], path_filter=lambda p: p.startswith(U + "OneshotSender"))]
    ctx.check(set(root_fn(p) for p in others) == {U + "OneshotSender::<T>::maybe_send"}, "C32.once.single-path", U + "OneshotSender", "oneshot::Sender::send is reached only through maybe_send", key="C32.once.single-path")
    d = ctx.anchor("<lumina_node::p2p::utils::OneshotSender<T> as core::ops::drop::Drop>::drop", main=False)
    if d:
        se = call_sites_with(ctx, d, [U + "OneshotSender::<T>::maybe_send_err", U + "OneshotSender::<T>::maybe_send"])
        ok = len(se) == 1 and has_leaf(ctx.leaves(call_expr(d, se[0])), "a1.drop_error") and all(d.dominates(se[0], x["block"]) for x in exit_sites(d))
        ctx.check(ok, "C32.drop-sends", d.path, "dropping an unused sender always sends the stored error", key="C32.drop-sends")
