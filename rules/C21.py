"""C21 — Stored headers always form fork-free hash-linked segments."""
from engine.rules import Cmp, Has, call_expr, call_result_honoured, call_sites_with, exit_sites, precedes, require_guard, walk
from engine.mir import has_all, has_leaf
from rules.storelib import IM, RB, REDB_WRITES, memory_writes, tx_closure

CLAUSE = (
    "For both native backends, over all CFG paths of insert: `?` on check_insertion_constraints(range of the batch) "
    "and `?` on the neighbour verification precede the first write; the neighbour verification receives "
    "prev_exists.then_some(first of batch) and next_exists.then_some(last of batch) with the flags coming from the "
    "constraints check; inside it there are exactly two ExtendedHeader::verify sites, each `?`-checked, oriented "
    "lower-header.verify(higher-header): stored(lowest.height()-1).verify(lowest) and highest.verify(stored("
    "highest.height()+1)); Store::insert only takes values convertible to VerifiedExtendedHeaders (C02 closes its "
    "constructors); the hash index and the height index are written with hash() and height() of the same header, and "
    "get_by_hash / get_by_height read through those same two indexes."
)
NOT_DECIDED = "The invariant over arbitrary histories (needs the behavioural model); the IndexedDb backend."
ENGINES = "O (checks precede writes), G (honoured results), D (argument provenance), S (index pairing)"
ASSUMPTIONS = ["C02: VerifiedExtendedHeaders is only constructed by verifying conversions"]


def neighbour_rules(ctx, nb, tag, store_leaf):
    vs = call_sites_with(ctx, nb, ["*ExtendedHeader::verify"])
    ctx.check(len(vs) == 2, "C21.%s.neigh.sites" % tag, nb.path, "exactly two neighbour verify sites (found %d)" % len(vs), key="C21.%s.neigh.sites" % tag)
    lower = upper = 0
    for b in vs:
        e = call_expr(nb, b)
        recv, arg = ctx.leaves(e[3][0]), ctx.leaves(e[3][1])
        call_result_honoured(ctx, nb, b, "C21.%s.neigh.checked" % tag, "?verify against neighbour")
        # which side is the stored header? (derived from the store lookup)
        recv_stored = has_leaf(recv, ["call:*get_by_height", "call:*get_header"])
        arg_stored = has_leaf(arg, ["call:*get_by_height", "call:*get_header"])
        exprs = [n for n in walk(e) if n[0] == "bin"]
        ops = {n[1][:3] for n in exprs}
        if recv_stored and not arg_stored:
            # stored(lowest.height() - 1).verify(lowest)
            ok = "Sub" in ops and "Add" not in ops and has_leaf(recv, "a2" if store_leaf == "a1" else "a2") and has_leaf(arg, "a2")
            ctx.check(ok, "C21.%s.neigh.lower" % tag, nb.path, "stored(lowest.height()-1).verify(lowest)", site=nb.loc(b), key="C21.%s.neigh.lower" % tag)
            lower += 1
        elif arg_stored and not recv_stored:
            ok = "Add" in ops and "Sub" not in ops and has_leaf(recv, "a3") and has_leaf(arg, "a3")
            ctx.check(ok, "C21.%s.neigh.upper" % tag, nb.path, "highest.verify(stored(highest.height()+1))", site=nb.loc(b), key="C21.%s.neigh.upper" % tag)
            upper += 1
    # both sides are always decided: no accepting exit is reachable without branching on the
    # presence of the lower AND of the upper neighbour (an early `return Ok(())` when one side is
    # absent must not skip the other side)
    from engine.rules import exit_sites, switches_on
    acc = [x["block"] for x in exit_sites(nb) if x["kind"] in ("accept", "may")]
    for arg, side in (("a2", "lower"), ("a3", "upper")):
        sw = [b for b in switches_on(ctx, nb, [arg], discr_only=True) if nb.switch_discr_expr(b)[1][0] == "arg"]
        bypass = nb.path_to([0], set(acc), removed_blocks=set(sw)) if sw else [0]
        ctx.check(bool(sw) and bypass is None, "C21.%s.neigh.both-sides" % tag, nb.path, "every accepting path decides on the presence of the %s neighbour" % side, key="C21.%s.neigh.both-sides|%s" % (tag, side), path=nb.render_path(bypass) if bypass and len(bypass) > 1 else None)
    ctx.check(lower == 1 and upper == 1, "C21.%s.neigh.orientation" % tag, nb.path, "one lower-neighbour and one upper-neighbour verification, lower header as receiver", key="C21.%s.neigh.orientation" % tag)


def insert_rules(ctx, f, tag, writes, nb_glob):
    cons = call_sites_with(ctx, f, ["*BlockRanges::check_insertion_constraints"])
    nbs = call_sites_with(ctx, f, [nb_glob])
    ctx.check(len(cons) == 1 and len(nbs) == 1, "C21.%s.sites" % tag, f.path, "one constraints check and one neighbour verification", key="C21.%s.sites" % tag)
    ctx.check(len(writes) >= 3, "C21.%s.writes" % tag, f.path, "write sites: %d" % len(writes), key="C21.%s.writes" % tag)
    if cons and nbs and writes:
        require_guard(ctx, f, Has("call:*BlockRanges::check_insertion_constraints", name="?check_insertion_constraints before any write"), "C21.%s.constraints-first" % tag, targets=writes)
        require_guard(ctx, f, Has("call:" + nb_glob, name="?neighbour verification before any write"), "C21.%s.neighbours-first" % tag, targets=writes)
        e = call_expr(f, cons[0])
        ok = has_all(ctx.leaves(e), ["call:*::first", "call:*::last", "call:*ExtendedHeader::height"])
        ctx.check(ok, "C21.%s.range" % tag, f.path, "constraints checked for first.height()..=last.height() of the batch", key="C21.%s.range" % tag)
        e = call_expr(f, nbs[0])
        args = e[3][-2:]

        def then_some(a, want_hdr, not_hdr, flag_idx):
            for n in walk(a):
                if n[0] == "call" and n[2].endswith("then_some") and len(n[3]) == 2:
                    flag, hdr = n[3]
                    hl = ctx.leaves(hdr)
                    fl = ctx.leaves(flag)
                    idx = flag[1][-1] if flag[0] == "proj" and flag[1] else None
                    return has_leaf(hl, want_hdr) and not has_leaf(hl, not_hdr) and has_leaf(fl, "call:*check_insertion_constraints") and idx == flag_idx
            return False

        ok = then_some(args[0], "call:*::first", "call:*::last", "0") and then_some(args[1], "call:*::last", "call:*::first", "1")
        ctx.check(ok, "C21.%s.neigh.args" % tag, f.path, "neighbour check gets prev_exists.then_some(first) and next_exists.then_some(last)", site=f.loc(nbs[0]), key="C21.%s.neigh.args" % tag)


def run(ctx):
    # in-memory
    f = ctx.anchor(IM + "InMemoryStoreInner::insert")
    if f:
        w = memory_writes(ctx, f, "self")
        insert_rules(ctx, f, "mem", w, IM + "InMemoryStoreInner::verify_against_neighbours")
        # index pairing
        hi = call_sites_with(ctx, f, ["*VacantEntry*::insert", "*HashMap*::insert"])
        keyed = [ctx.leaves(call_expr(f, b)) for b in hi]
        ok = any(has_leaf(k, "call:*ExtendedHeader::hash") and has_leaf(k, "call:*ExtendedHeader::height") for k in keyed)
        ctx.check(ok, "C21.mem.index-pair", f.path, "height_to_hash written with height() and hash() of the same header", key="C21.mem.index-pair")
    if f:
        # a hash that repeats INSIDE the inserted span would overwrite its first header in `headers` while both
        # heights point at it: some per-header guard must depend on a collection of the hashes seen in this batch
        # (the result of an insert into a set / map keyed by header.hash(), or an entry test)
        from engine.rules import per_iteration
        per_iteration(ctx, f, ["headers"], Has(["call:*HashSet*::insert", "call:*BTreeSet*::insert", "call:*HashMap*::insert", "call:*BTreeMap*::insert", "call:*::entry", "call:*HashSet*::contains"], "call:*ExtendedHeader::hash",
                                               name="a hash repeated inside the inserted span is rejected"), "C21.mem.batch-duplicate", "every header of the span is tested against the hashes already seen in the span", must_dominate=False)
    nb = ctx.anchor(IM + "InMemoryStoreInner::verify_against_neighbours")
    if nb:
        neighbour_rules(ctx, nb, "mem", "a1")
    g = ctx.anchor(IM + "InMemoryStoreInner::get_by_height")
    if g:
        rl = set()
        for x in exit_sites(g):
            if x["kind"] in ("accept", "may"):
                rl |= ctx.leaves(x["expr"])
        ctx.check(has_all(rl, ["a1.height_to_hash", "a1.headers", "a2"]), "C21.mem.get_by_height", g.path, "get_by_height reads height_to_hash then headers", key="C21.mem.get_by_height")
    # redb
    r = tx_closure(ctx, "insert")
    ctx.check(r is not None, "C21.redb.closure", RB + "RedbStore::insert", "transaction closure of insert found", key="C21.redb.closure")
    if r is not None:
        ctx.functions.add(r.path)
        w = r.call_sites(REDB_WRITES + [RB + "set_ranges"])
        insert_rules(ctx, r, "redb", w, RB + "verify_against_neighbours")
        ins = [call_expr(r, b) for b in r.call_sites(["redb::table::Table::<*>::insert"])]
        by_height = [e for e in ins if has_leaf(ctx.leaves(e[3][1]), "call:*ExtendedHeader::height") and not has_leaf(ctx.leaves(e[3][1]), "call:*ExtendedHeader::hash")]
        by_hash = [e for e in ins if has_leaf(ctx.leaves(e[3][1]), "call:*ExtendedHeader::hash")]
        ok = len(by_height) == 1 and len(by_hash) == 1 and has_leaf(ctx.leaves(by_hash[0][3][2]), "call:*ExtendedHeader::height") and has_leaf(ctx.leaves(by_height[0][3][2]), "call:*encode_vec")
        ctx.check(ok, "C21.redb.index-pair", r.path, "HEADERS[height] = header and HEIGHTS[hash] = height of the same header", key="C21.redb.index-pair")
    nb = ctx.anchor(RB + "verify_against_neighbours")
    if nb:
        neighbour_rules(ctx, nb, "redb", "a1")
    gh = tx_closure(ctx, "get_by_hash", "read_tx")
    if gh is not None:
        rl = set()
        for x in exit_sites(gh):
            if x["kind"] in ("accept", "may"):
                rl |= ctx.leaves(x["expr"])
        ctx.check(has_all(rl, ["call:*get_height", "call:*get_header"]), "C21.redb.get_by_hash", gh.path, "get_by_hash reads HEIGHTS[hash] then HEADERS[height]", key="C21.redb.get_by_hash")
    # Store::insert signature (trait): argument must convert into VerifiedExtendedHeaders
    for meth in (IM + "InMemoryStore::insert", RB + "RedbStore::insert"):
        m = ctx.anchor(meth)
        if m:
            require_guard(ctx, m, Has("call:*TryInto::try_into", "headers", name="?headers.try_into::<VerifiedExtendedHeaders>()"), "C21.entry.try_into")
            ins = m.call_sites([IM + "InMemoryStoreInner::insert", RB + "RedbStore::write_tx"])
            ok = bool(ins) and all(has_leaf(ctx.leaves(call_expr(m, b)), "call:*TryInto::try_into") for b in ins)
            ctx.check(ok, "C21.entry.verified-only", m.path, "only the verified conversion result reaches the backend insert", key="C21.entry.verified-only|" + meth)
