"""C03 — Commit verification enforces the voting-power thresholds."""
from engine.rules import Cmp, Has, call_expr, call_sites_with, exit_sites, holds, precedes, require_guard
from engine.mir import has_all, has_leaf

T = "celestia_types::"
LIGHT = "<tendermint::validator::Set as celestia_types::validator_set::ValidatorSetExt>::verify_commit_light"
TRUST = "<tendermint::validator::Set as celestia_types::validator_set::ValidatorSetExt>::verify_commit_light_trusting"
CLAUSE = (
    "Decides the shape of the two tally loops over all CFG paths: the only accepting exits sit on the edge "
    "'tallied power > voting_power_needed' (strictness and polarity normalised, so > -> >= fires while "
    "a > b -> !(a <= b) does not); needed is voting_power_needed(total_voting_power) of TrustLevelRatio::new(2, 3) "
    "(light) or of the trust_level parameter (trusting); voting_power_needed rejects both checked_mul and checked_div "
    "failures; a validator's power is added only past `?` on vote_sign_bytes and verify_signature in the same "
    "iteration, and in the trusting variant only past the seen-validators lookup whose hit edge rejects, with the "
    "insertion into the seen set on the continuing edge; the validator whose key verifies is the one found by address."
)
NOT_DECIDED = "The 'accepted exactly when' completeness direction; u64 overflow of the tally; signature cryptography."
ENGINES = "G (strict comparison normalisation, per-iteration with back edges cut), O (insert before tally), K (2/3)"
ASSUMPTIONS = ["tendermint verify_signature and Set::total_voting_power are opaque"]
SEEN = ["call:*HashMap*::get", "call:*HashMap*::insert", "call:*HashMap*::contains_key", "call:*HashSet*::insert", "call:*HashSet*::contains", "call:*HashMap*::entry"]


def threshold(ctx, f, tag, light):
    require_guard(ctx, f, Cmp(["call:*validator::Info::power"], ["call:*TrustLevelRatio::voting_power_needed"], pass_op="Gt", name="accept only on tallied > needed (strict)"), "C03.%s.threshold" % tag)
    need = call_sites_with(ctx, f, ["*TrustLevelRatio::voting_power_needed"])
    ctx.check(len(need) == 1, "C03.%s.needed-site" % tag, f.path, "voting_power_needed computed once", key="C03.%s.needed-site" % tag)
    if need:
        ls = ctx.leaves(call_expr(f, need[0]))
        if light:
            ok = has_all(ls, ["call:*TrustLevelRatio::new", "lit:2", "lit:3", "call:*Set::total_voting_power", "a1"])
            what = "needed = TrustLevelRatio::new(2, 3).voting_power_needed(self.total_voting_power())"
        else:
            ok = has_all(ls, ["a4", "call:*Set::total_voting_power", "a1"]) and not has_leaf(ls, "call:*TrustLevelRatio::new")
            what = "needed = trust_level.voting_power_needed(self.total_voting_power())"
        ctx.check(ok, "C03.%s.needed" % tag, f.path, what, site=f.loc(need[0]), key="C03.%s.needed" % tag)
        require_guard(ctx, f, Has("call:*TrustLevelRatio::voting_power_needed", name="?voting_power_needed"), "C03.%s.needed-checked" % tag)
    tally = call_sites_with(ctx, f, ["*validator::Info::power"])
    ctx.check(len(tally) >= 1, "C03.%s.tally-site" % tag, f.path, "tally reads validator.power()", key="C03.%s.tally-site" % tag)
    return tally


def seen_key_rule(ctx, g, tag):
    """The seen-validators set is keyed by the validator's identity (index / address found in the
    trusted set), not by the position of the signature in the commit."""
    ks = call_sites_with(ctx, g, ["*HashMap*::get", "*HashMap*::insert", "*HashMap*::contains_key", "*HashSet*::insert", "*HashSet*::contains", "*HashMap*::entry"])
    ok = bool(ks)
    bad = None
    for b in ks:
        e = call_expr(g, b)
        if len(e[3]) < 2:
            continue
        kl = ctx.leaves(e[3][1])
        if not has_leaf(kl, ["call:*find_validator", "field:validator_address", "call:*Set::validator"]):
            ok = False
            bad = g.loc(b)
    ctx.check(ok, tag + ".trusting.seen-key", g.path, "the double-vote set is keyed by the trusted validator's identity (not by the signature position)", site=bad, key=tag + ".trusting.seen-key")


def run(ctx):
    f = ctx.anchor(LIGHT)
    if f:
        tally = threshold(ctx, f, "light", True)
        if tally:
            require_guard(ctx, f, Has("call:*verify_signature", "call:*CommitExt*::vote_sign_bytes", name="?verify_signature before tally"), "C03.light.signature", targets=tally, cut_back_edges=True)
            require_guard(ctx, f, Cmp(["a1", "call:*Set::validators"], ["len:a4.signatures"], pass_op="Eq", name="one signature entry per validator"), "C03.light.count")
    g = ctx.anchor(TRUST)
    if g:
        tally = threshold(ctx, g, "trusting", False)
        if tally:
            require_guard(ctx, g, Has("call:*verify_signature", "call:*CommitExt*::vote_sign_bytes", name="?verify_signature before tally"), "C03.trusting.signature", targets=tally, cut_back_edges=True)
            require_guard(ctx, g, Has(SEEN, name="double-vote lookup rejects before tally"), "C03.trusting.double-vote", targets=tally, cut_back_edges=True)
            ins = call_sites_with(ctx, g, ["*HashMap*::insert", "*HashSet*::insert"])
            precedes_ok = bool(ins)
            if ins:
                # with back edges cut, every path to the tally passes an insertion into the seen set
                removed = set()
                for b in g.reachable_from([0]):
                    for d in g.succ(b):
                        if g.dominates(d, b):
                            removed.add((b, d))
                for a in ins:
                    for d, _ in g.out_edges(a):
                        removed.add((a, d))
                precedes_ok = g.path_to([0], set(tally), removed) is None
            ctx.check(precedes_ok, "C03.trusting.seen-insert", g.path, "validator recorded in the seen set before its power is tallied", site=g.loc(ins[0]) if ins else None, key="C03.trusting.seen-insert")
            seen_key_rule(ctx, g, "C03")
            # the verifying validator is the one looked up by the signature's address in self
            vs = call_sites_with(ctx, g, ["*verify_signature"])
            ok = bool(vs) and all(has_all(ctx.leaves(call_expr(g, b)), ["call:*find_validator", "a1", "a3.signatures"]) or has_all(ctx.leaves(call_expr(g, b)), ["call:*Set::validator", "a1", "a3.signatures"]) for b in vs)
            ctx.check(ok, "C03.trusting.validator-lookup", g.path, "signature verified with the trusted validator found by the vote's address", key="C03.trusting.validator-lookup")
    v = ctx.anchor(T + "trust_level::TrustLevelRatio::voting_power_needed")
    if v:
        require_guard(ctx, v, Has("call:*checked_mul", "a1.numerator", "a2", name="checked_mul None rejected"), "C03.needed.mul")
        ex = [x for x in exit_sites(v) if x["kind"] in ("accept", "may")]
        ok = bool(ex) and all(has_all(ctx.leaves(x["expr"]), ["call:*checked_div", "a1.denominator", "call:*checked_mul"]) for x in ex)
        ctx.check(ok, "C03.needed.div", v.path, "result is checked_mul(..).checked_div(denominator) with None mapped to an error", key="C03.needed.div")
        # multiply before divide: floor(n*t/d), not floor(t/d)*n (which is lower whenever t mod d != 0)
        MUL = ["*::checked_mul", "*::saturating_mul", "*::wrapping_mul", "*Mul::mul", "*::widening_mul", "*::overflowing_mul"]
        DIV = ["*::checked_div", "*Div::div", "*::div_euclid", "*::checked_div_euclid", "*::div_floor", "*::div_ceil"]
        divs = call_sites_with(ctx, v, DIV)
        muls = call_sites_with(ctx, v, MUL)
        def operand_has(b, pats):
            e = call_expr(v, b)
            return any(has_leaf(ctx.leaves(a), ["call:" + p for p in pats]) for a in e[3])
        order_ok = bool(divs) and bool(muls) and all(operand_has(b, MUL) for b in divs) and not any(operand_has(b, DIV) for b in muls)
        # plain operators (`a * b / c`) appear as MIR binary ops, not calls
        from engine.mir import walk
        for x in exit_sites(v):
            for n in walk(x["expr"]):
                if n[0] == "bin" and n[1].startswith("Mul"):
                    if any(m[0] == "bin" and m[1].startswith("Div") for m in walk(n)):
                        order_ok = False
        ctx.check(order_ok, "C03.needed.order", v.path, "the product numerator*total is formed before the division by the denominator (floor(n*t/d))", key="C03.needed.order")
