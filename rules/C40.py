"""C40 — Shrex peer pools contain only peers that announced the right data."""
from engine.rules import Cmp, Direct, Has, aggregates, call_expr, call_sites_with, const_value, edge_call_truth, exit_sites, require_guard
from engine.mir import has_all, has_leaf, walk

M = "lumina_node::p2p::shrex::pool_tracker::"
T = M + "PoolTracker::<S>::"
CLAUSE = (
    "Decides over all CFG paths: add_peer_for_hash drops announcements at or below the stale-height threshold "
    "(subjective head - ROOT_HASH_WINDOW, ROOT_HASH_WINDOW = 10, saturating); a candidate is recorded only on the "
    "true edge of voted.insert(peer) and a duplicate vote queues BlockPeers; for a validated height AddPeers is "
    "queued only on the equality edge of validated_hash == announced hash, BlockPeers on the other; validate_pool "
    "promotes exactly candidates.remove(&data_hash) and blocks the remaining candidates, and its data_hash argument "
    "is the data_hash of the stored header the store task returned for that height; try_update_subjective_head "
    "evicts pools up to the new threshold. EdsNotification::deserialize_and_validate is a C16 cone root."
)
NOT_DECIDED = "Interleavings of notifications and header arrivals; the expect in get_pool (value invariant between hash_pools and validated_pools)."
ENGINES = "G (call-site conditions), D (provenance), K"
ASSUMPTIONS = []


def event_sites(ctx, body, variant):
    out = []
    for b in sorted(body.reachable_from([0])):
        for i, st in enumerate(body.stmts(b)):
            r = st["r"]
            if r["k"] == "agg" and r.get("adt") == "lumina_node::p2p::shrex::Event" and r.get("variant") == variant:
                out.append(b)
    return out


def run(ctx):
    ctx.check(const_value(ctx, M + "ROOT_HASH_WINDOW") == 10, "C40.K.window", M + "ROOT_HASH_WINDOW", "ROOT_HASH_WINDOW = 10", key="C40.K.window")
    st = ctx.anchor(M + "stale_height_threshold", main=False)
    if st:
        rl = set()
        for x in exit_sites(st):
            rl |= ctx.leaves(x["expr"])
        ctx.check(has_all(rl, ["call:*saturating_sub", "a1", "const:" + M + "ROOT_HASH_WINDOW"]), "C40.threshold", st.path, "threshold = head.saturating_sub(ROOT_HASH_WINDOW)", key="C40.threshold")
    a = ctx.anchor(T + "add_peer_for_hash", main=False)
    if a:
        pushes = call_sites_with(ctx, a, ["*Vec*::push"])
        evs = event_sites(ctx, a, "AddPeers") + event_sites(ctx, a, "BlockPeers")
        sinks = pushes + evs + call_sites_with(ctx, a, [T + "queue_get_header_from_store"])
        ctx.check(len(pushes) == 2 and len(evs) == 3, "C40.add.sites", a.path, "pool insertions: %d, events: %d" % (len(pushes), len(evs)), key="C40.add.sites")
        if sinks:
            require_guard(ctx, a, Has("a1.subjective_head", "closure:*", name="stale heights (<= head - window, or no head yet) are ignored"), "C40.add.stale", targets=sinks)
        cand = [b for b in pushes if has_leaf(ctx.leaves(call_expr(a, b)), "call:*HashMap*::entry") and not has_leaf(ctx.leaves(call_expr(a, b)[3][0]), "a1.validated_pools")]
        val = [b for b in pushes if has_leaf(ctx.leaves(call_expr(a, b)[3][0]), "a1.validated_pools")]
        ctx.check(len(cand) == 1 and len(val) == 1, "C40.add.pools", a.path, "one candidate insertion and one validated-pool insertion", key="C40.add.pools")
        for b in cand:
            ok = False
            for s, lab, d in a.edge_conditions(b):
                if edge_call_truth(ctx, a, s, lab, ["*HashSet*::insert"]) is True:
                    ok = True
            ctx.check(ok, "C40.add.single-vote", a.path, "a candidate is recorded only when the peer had not voted for this height before", site=a.loc(b), key="C40.add.single-vote")
            ctx.check(has_leaf(ctx.leaves(call_expr(a, b)), "a3"), "C40.add.by-hash", a.path, "candidates are grouped by the announced data hash", key="C40.add.by-hash")
        for b in val:
            require_guard(ctx, a, Cmp(["a3"], ["a1.hash_pools"], pass_op="Eq", name="announced hash == validated hash of the height"), "C40.add.validated-hash", targets=[b])
        add = event_sites(ctx, a, "AddPeers")
        if add:
            require_guard(ctx, a, Cmp(["a3"], ["a1.hash_pools"], pass_op="Eq", name="AddPeers only for the validated hash"), "C40.add.addpeers", targets=add)
    v = ctx.anchor(T + "validate_pool", main=False)
    if v:
        ins = call_sites_with(ctx, v, ["*HashMap*::insert"], ["a1.validated_pools"])
        ok = len(ins) == 1
        if ok:
            e = call_expr(v, ins[0])
            ok = has_leaf(ctx.leaves(e[3][1]), "a2") and has_all(ctx.leaves(e[3][2]), ["call:*HashMap*::remove", "a2"])
        ctx.check(ok, "C40.validate.promote", v.path, "validated_pools[data_hash] = candidates.remove(&data_hash)", key="C40.validate.promote")
        blk = event_sites(ctx, v, "BlockPeers")
        ok = len(blk) == 1
        ctx.check(ok, "C40.validate.block-rest", v.path, "the remaining candidates are blocked", key="C40.validate.block-rest")
    p = ctx.anchor(T + "poll", main=False)
    if p:
        vc = call_sites_with(ctx, p, [T + "validate_pool"])
        ok = len(vc) == 1
        if ok:
            e = call_expr(p, vc[0])
            ok = has_all(ctx.leaves(e[3][1]), ["field:data_hash", "call:*poll_next_unpin"]) and has_all(ctx.leaves(e[3][2]), ["call:*ExtendedHeader::height", "call:*poll_next_unpin"])
        ctx.check(ok, "C40.validate.source", p.path, "validate_pool(header.data_hash, header.height()) for the header the store task delivered", key="C40.validate.source")
        up = call_sites_with(ctx, p, [T + "try_update_subjective_head"])
        ctx.check(len(up) == 1 and bool(vc) and p.dominates(up[0], vc[0]), "C40.head-first", p.path, "the subjective head is advanced before the pool is validated", key="C40.head-first")
    q = None
    for cp in ctx.facts.family(T + "queue_get_header_from_store")[1:]:
        cb = ctx.fn(cp)
        if cb.call_sites(["lumina_node::store::Store::get_by_height"]):
            q = cb
    ctx.check(q is not None, "C40.task.found", T + "queue_get_header_from_store", "store task found", key="C40.task.found")
    if q is not None:
        gb = q.call_sites(["lumina_node::store::Store::get_by_height"])
        ok = bool(gb) and all(has_leaf(ctx.leaves(call_expr(q, b)), "height") for b in gb)
        ctx.check(ok, "C40.task.height", q.path, "the task fetches the stored header of the announced height", key="C40.task.height")
    u = ctx.anchor(T + "try_update_subjective_head", main=False)
    if u:
        rm = [b for b in call_sites_with(ctx, u, ["*HashMap*::remove"]) if has_leaf(ctx.leaves(call_expr(u, b)[3][0]), "a1.hash_pools") and not has_leaf(ctx.leaves(call_expr(u, b)[3][0]), "a1.validated_pools")]
        ok = len(rm) == 1 and has_leaf(ctx.leaves(call_expr(u, rm[0])), "call:" + M + "stale_height_threshold")
        ctx.check(ok, "C40.evict", u.path, "pools from the old threshold up to the new threshold are evicted", key="C40.evict")
        if len(rm) == 1:
            # the whole interval (old threshold ..= new threshold) is evicted, not one height: the removal
            # key is produced by an iteration whose bounds derive from BOTH the previous head and the new one
            key = call_expr(u, rm[0])[3][1]
            kl = ctx.leaves(key)
            in_loop = rm[0] in u.reachable_from(u.succ(rm[0]))
            ctx.check(in_loop and has_leaf(kl, "call:*Iterator*::next") and has_leaf(kl, "a2") and has_leaf(kl, "a1.subjective_head"), "C40.evict.interval", u.path,
                      "the eviction iterates from the threshold of the previous subjective head to the threshold of the new one", site=u.loc(rm[0]), key="C40.evict.interval")
