"""C27 — Verified header range requests terminate and never panic."""
from rules.conelib import run_cone
from engine.rules import Cmp, Has, require_guard

N = "lumina_node::"
CLAUSE = (
    "Decides (1) 'never panics for any amount': no unguarded panic-capable construct (engine P, see C16) in the "
    "cone of P2p::get_verified_headers_range, HeaderSession::{new, run, send_next_request, send_request} and "
    "take_next_batch; (2) the final verification: Ok is returned only past `?` on from.validate() and `?` on "
    "from.verify_adjacent_range(headers) for the headers the session returned; (3) a zero amount returns before a "
    "session is created (an empty range can never be satisfied by a header-ex peer, so a session for it would "
    "retry forever)."
)
NOT_DECIDED = "Termination / promptness in general (liveness under arbitrary peers)."
ENGINES = "P (panic cone), G (must-check)"
ASSUMPTIONS = ["tendermint block::Height <= i64::MAX"]
ROOTS = [
    N + "p2p::P2p::get_verified_headers_range",
    N + "p2p::header_session::HeaderSession::new", N + "p2p::header_session::HeaderSession::run",
    N + "p2p::header_session::HeaderSession::send_next_request", N + "p2p::header_session::HeaderSession::send_request",
    N + "p2p::header_session::take_next_batch",
]
STOP = ["celestia_types::*", "<celestia_types::*", "<tendermint::*", N + "store::*", "<lumina_node::store::*", N + "events::*"]


def run(ctx):
    run_cone(ctx, "C27", ROOTS, 10, stop=STOP)
    f = ctx.anchor(N + "p2p::P2p::get_verified_headers_range")
    if f:
        require_guard(ctx, f, Has("call:*ExtendedHeader::validate", "from", name="?from.validate()"), "C27.validate-from")
        from engine.rules import exit_sites, holds
        acc = [x["block"] for x in exit_sites(f) if x["kind"] in ("accept", "may")]
        # the zero-amount answer (an empty list, before any session exists) needs no verification
        zero = [b for b in acc if holds(ctx, f, Cmp(["amount"], ["lit:0"], pass_op="Eq", name="amount == 0"), targets=[b])[0]]
        rest = [b for b in acc if b not in zero]
        ctx.check(len(rest) >= 1, "C27.exits", f.path, "accepting exits: %d after a session, %d for a zero amount" % (len(rest), len(zero)), key="C27.exits")
        if rest:
            require_guard(ctx, f, Has("call:*ExtendedHeader::verify_adjacent_range", "from", "call:*HeaderSession::run", name="?from.verify_adjacent_range(session headers)"), "C27.verify-range", targets=rest)
        ses = f.call_sites([N + "p2p::header_session::HeaderSession::new"])
        ctx.check(len(ses) == 1, "C27.session-site", f.path, "one header session per call", key="C27.session-site")
        if ses:
            require_guard(ctx, f, Cmp(["amount"], ["lit:0"], pass_op="Ne", name="amount != 0 before a session is created"), "C27.zero-amount", targets=ses)
