"""C09 — An EDS fetched over shrex matches the header's DAH."""
from engine.rules import Cmp, Has, exit_sites, require_guard
from engine.mir import has_all

CLAUSE = (
    "Decides over all CFG paths of the shrex EDS decoder: Ok is returned only past the comparison of "
    "DataAvailabilityHeader::from_eds(square built by from_ods(chunks of the payload, app_version)) with the dah "
    "argument (accept on equality), the returned square is that same square, and empty or non-multiple-of-"
    "SHARE_SIZE payloads are rejected. The no-panic part is decided under C16 (this function is a cone root)."
)
NOT_DECIDED = "That honest payloads are accepted; erasure coding itself."
ENGINES = "G (must-check, operand-separated comparison), D (returned value)"
ASSUMPTIONS = ["DataAvailabilityHeader PartialEq is the derived structural equality"]
F = "<celestia_types::eds::ExtendedDataSquare as lumina_node::p2p::shrex::codec::ResponseCodec>::decode_and_verify"


def run(ctx):
    f = ctx.anchor(F)
    if not f:
        return
    require_guard(ctx, f, Cmp(["call:*DataAvailabilityHeader::from_eds", "call:*ExtendedDataSquare::from_ods", "a1", "a4"], ["a3"], pass_op="Eq", name="from_eds(from_ods(payload, app_version)) == dah"), "C09.dah")
    require_guard(ctx, f, Has("call:*ExtendedDataSquare::from_ods", "a1", "a4", name="?from_ods(payload chunks, app_version)"), "C09.from_ods")
    require_guard(ctx, f, Has("len:a1", name="empty payload rejected"), "C09.empty")
    from engine.rules import AnyOf
    require_guard(ctx, f, AnyOf(Has("len:a1", "const:*SHARE_SIZE", ["call:*is_multiple_of", "call:*Rem::rem"]),
                                Cmp(["len:a1", "const:*SHARE_SIZE"], ["lit:0"], pass_op="Eq", local_only=True),
                                name="payload length multiple of SHARE_SIZE"), "C09.multiple")
    ex = [x for x in exit_sites(f) if x["kind"] == "accept"]
    ok = bool(ex) and all(has_all(ctx.leaves(x["expr"]), ["call:*ExtendedDataSquare::from_ods"]) for x in ex)
    ctx.check(ok, "C09.returns-square", f.path, "the returned value is the square that was compared", key="C09.returns-square")
    # the DAH PartialEq is derived (structural)
    der = [i for i in ctx.facts.impls("celestia_types") if i.get("trait") == "core::cmp::PartialEq" and i["self_ty"] == "celestia_types::data_availability_header::DataAvailabilityHeader"]
    ctx.check(len(der) == 1 and der[0]["derived"], "C09.dah-eq-derived", "celestia_types::data_availability_header::DataAvailabilityHeader", "PartialEq for DataAvailabilityHeader is the derived impl", key="C09.dah-eq-derived")
