"""C35 — The pruner only removes blocks that are safe to remove."""
from engine.rules import BoolIs, Cmp, Has, all_call_sites, call_expr, call_result_honoured, call_sites_with, exit_sites, loop_heads, require_guard, root_fn, walk
from engine.mir import has_all, has_leaf

P = "lumina_node::pruner::"
D = "lumina_node::daser::"
CLAUSE = (
    "Decides over all CFG paths: every Store::remove_height call in the pruner is reached only after "
    "`?`get_sampling_metadata for the same height and after the loop that `?`-removes every recorded CID from the "
    "blockstore ran to exhaustion (its iterator's None edge); the batch builder derives candidates from stored "
    "ranges intersected with the prunable area (cache.after_pruning_window), removes the synced-range edges and "
    "intersects with the sampled ranges for heights still inside the sampling window, and adds an after-sampling-"
    "window height only past sampled_ranges.contains(height) OR Daser::want_to_prune(height) (`?`-checked); the "
    "daser grants want_to_prune only when the height is not in `ongoing`, and then removes it from its queue and "
    "records it in will_be_pruned."
)
NOT_DECIDED = "Window arithmetic over header times (find_height_after_window, C36); behaviour over schedules."
ENGINES = "O (ordering: metadata -> CID removal exhausted -> remove_height), D (set-algebra provenance), G (consent guard incl. disjunction)"
ASSUMPTIONS = ["BlockRanges set operators are correct (C17, not decided statically)"]


def run(ctx):
    sites = all_call_sites(ctx, ["lumina_node"], ["lumina_node::store::Store::remove_height"], path_filter=lambda p: p.startswith(P))
    ctx.floor("C35.remove.sites", "remove_height call sites in the pruner", len(sites), 1)
    for b, blk in sites:
        ctx.functions.add(b.path)
        e = call_expr(b, blk)
        meta = call_sites_with(ctx, b, ["lumina_node::store::Store::get_sampling_metadata"])
        ctx.check(len(meta) >= 1, "C35.remove.metadata-site", b.path, "sampling metadata is read in the pruning loop", key="C35.remove.metadata-site")
        if not meta:
            continue
        # same height: both derive from the same range iterator step
        def height_id(x):
            its = {n[4] for n in walk(x) if n[0] == "call" and n[2].endswith("Iterator::next")}
            # the loop variable of the batch iteration, or (when the loop body lives in a helper) the
            # helper's own height parameter
            return ("iter", frozenset(its)) if its else ("leaves", frozenset(ctx.leaves(x)))

        hm, hr = height_id(call_expr(b, meta[0])[3][1]), height_id(e[3][1])
        ctx.check(bool(hm[1]) and hm == hr, "C35.remove.same-height", b.path, "metadata and removal use the same height of the batch", site=b.loc(blk), key="C35.remove.same-height")
        require_guard(ctx, b, Has("call:lumina_node::store::Store::get_sampling_metadata", name="?get_sampling_metadata(height)"), "C35.remove.metadata-first", targets=[blk])
        # the CID loop: iterator derived from the metadata, Blockstore::remove honoured
        cid_loops = loop_heads(ctx, b, ["call:lumina_node::store::Store::get_sampling_metadata"])
        rm = call_sites_with(ctx, b, ["*Blockstore::remove"])
        ctx.check(len(cid_loops) >= 1 and len(rm) >= 1, "C35.remove.cid-loop", b.path, "loop over the recorded CIDs calling Blockstore::remove", key="C35.remove.cid-loop")
        for r in rm:
            call_result_honoured(ctx, b, r, "C35.remove.cid-checked", "?blockstore.remove(cid)")
            ctx.check(has_leaf(ctx.leaves(call_expr(b, r)), "call:lumina_node::store::Store::get_sampling_metadata"), "C35.remove.cid-source", b.path, "removed CIDs come from the height's sampling metadata", site=b.loc(r), key="C35.remove.cid-source")
        if cid_loops:
            # remove_height only behind the None edge of the CID iterator
            ok = True
            for nb, entry in cid_loops:
                # the switch after next: find edge with label 0 (None)
                nxt = b.blocks[nb]["t"].get("to")
                k = 0
                while nxt is not None and b.blocks[nxt]["t"]["k"] != "switch" and k < 4:
                    es = b.out_edges(nxt)
                    nxt = es[0][0] if len(es) == 1 else None
                    k += 1
                none_edges = [(nxt, d) for d, lab in b.out_edges(nxt) if lab == 0] if nxt is not None else []
                # cut back edges so that "next iteration of the outer loop" does not count
                back = set()
                for x in b.reachable_from([0]):
                    for d in b.succ(x):
                        if b.dominates(d, x) and not b.dominates(d, nb):
                            pass
                if not none_edges or blk in b.reachable_from([meta[0]], removed_edges=set(none_edges)):
                    ok = False
            ctx.check(ok, "C35.remove.after-cids", b.path, "remove_height is reachable from the metadata read only through exhaustion of the CID-removal loop", site=b.loc(blk), key="C35.remove.after-cids")
    g = ctx.anchor(P + "Worker::<S, B>::get_next_prunable_batch")
    if g:
        hn = call_sites_with(ctx, g, ["*BlockRanges::headn"])
        ctx.check(len(hn) == 1, "C35.batch.headn", g.path, "in-window part of the batch is headn(prunable_and_sampled)", key="C35.batch.headn")
        if hn:
            recv = call_expr(g, hn[0])[3][0]
            subs = [n for n in walk(recv) if n[0] == "call" and n[2].endswith("Sub::sub") and len(n[3]) == 2 and has_leaf(ctx.leaves(n[3][1]), "call:*BlockRanges::edges")]
            ok_edges = bool(subs) and all(has_all(ctx.leaves(n[3][1]), ["call:lumina_node::store::Store::get_pruned_ranges", "call:lumina_node::store::Store::get_stored_header_ranges"]) for n in subs)
            ctx.check(ok_edges, "C35.batch.minus-edges", g.path, "edges of (pruned + stored) are subtracted from the in-window candidates", key="C35.batch.minus-edges")
            ands = [n for n in walk(recv) if n[0] == "call" and n[2].endswith("BitAnd::bitand") and len(n[3]) == 2]
            ok_s = any(has_leaf(ctx.leaves(n[3][1]), "call:lumina_node::store::Store::get_sampled_ranges") and any(m in subs for m in walk(n[3][0])) for n in ands)
            ctx.check(ok_s, "C35.batch.and-sampled", g.path, "(candidates - after_sampling_window - edges) is intersected with the sampled ranges", key="C35.batch.and-sampled")
            ls = ctx.leaves(recv)
            ctx.check(has_all(ls, ["call:lumina_node::store::Store::get_stored_header_ranges", "self.cache.after_pruning_window"]), "C35.batch.candidates", g.path, "candidates = stored ranges & prunable area (after_pruning_window)", key="C35.batch.candidates")
            sub_asw = [n for n in walk(recv) if n[0] == "call" and n[2].endswith("Sub::sub") and has_leaf(ctx.leaves(n[3][1]), "self.cache.after_sampling_window")]
            ctx.check(bool(sub_asw), "C35.batch.minus-after-window", g.path, "heights after the sampling window are handled separately (subtracted here)", key="C35.batch.minus-after-window")
        ins = call_sites_with(ctx, g, ["*BlockRanges::insert_relaxed"])
        ctx.check(len(ins) == 1, "C35.batch.insert-site", g.path, "one insertion of after-sampling-window heights", key="C35.batch.insert-site")
        if ins:
            require_guard(ctx, g, BoolIs(["*BlockRanges::contains", D + "Daser::want_to_prune*"], True, name="sampled_ranges.contains(height) || daser.want_to_prune(height) is TRUE"), "C35.batch.consent", targets=ins)
            ie = call_expr(g, ins[0])
            ctx.check(has_leaf(ctx.leaves(ie), "self.cache.after_sampling_window"), "C35.batch.insert-source", g.path, "inserted heights come from the after-sampling-window candidates", key="C35.batch.insert-source")
        for w in call_sites_with(ctx, g, [D + "Daser::want_to_prune"]):
            pass
    w = ctx.anchor(D + "Worker::<S>::on_want_to_prune")
    if w:
        require_guard(ctx, w, Has("call:*BlockRanges::contains", "self.ongoing", name="refuse while sampling of the height is ongoing"), "C35.daser.ongoing")
        acc = [x["block"] for x in exit_sites(w) if x["kind"] in ("accept",)]
        rq = call_sites_with(ctx, w, ["*BlockRanges::remove_relaxed"], ["self.queue"])
        wp = call_sites_with(ctx, w, ["*BlockRanges::insert_relaxed"], ["self.will_be_pruned"])
        ok = bool(rq) and bool(wp) and all(all(w.dominates(x, a) for x in rq + wp) for a in acc)
        ctx.check(ok, "C35.daser.bookkeeping", w.path, "granting removes the height from the queue and records it in will_be_pruned", key="C35.daser.bookkeeping")

    u = ctx.anchor(P + "Worker::<S, B>::update_cached_data")
    if u:
        from engine.mir import norm_proj
        calls = call_sites_with(ctx, u, [P + "find_height_after_window"])
        ctx.check(len(calls) == 2, "C35.cache.searches", u.path, "one window search per window (sampling, pruning)", key="C35.cache.searches")
        seen = set()
        for b in calls:
            e = call_expr(u, b)
            if len(e[3]) < 4:
                continue
            from engine.mir import direct_arg_leaves, walk_direct
            cut, prev = direct_arg_leaves(e[3][2]), direct_arg_leaves(e[3][3])
            for name, field, other in (("sampling_cutoff", "self.cache.after_sampling_window", "self.cache.after_pruning_window"), ("pruning_cutoff", "self.cache.after_pruning_window", "self.cache.after_sampling_window")):
                if has_leaf(cut, name):
                    seen.add(name)
                    ctx.check(has_leaf(prev, field) and not has_leaf(prev, other), "C35.cache.hint", u.path, "the search for %s starts from its own cached answer (%s)" % (name, field.split(".")[-1]), site=u.loc(b), key="C35.cache.hint|" + name)
                    # its result is what gets stored into that cache field
                    okw = False
                    for blk in sorted(u.reachable_from([0])):
                        for i, st in enumerate(u.stmts(blk)):
                            pr = norm_proj(st["d"].get("p"))
                            if pr and pr[-1] == field.split(".")[-1]:
                                rv = u.expr_rvalue(st["r"], (), blk, 0)
                                from engine.rules import value_source_calls
                                srcs = [n for n in value_source_calls(rv) if n[1] == P + "find_height_after_window"]
                                okw = bool(srcs) and all(n[4] == b for n in srcs)
                    ctx.check(okw, "C35.cache.store", u.path, "%s is updated from the search made with %s" % (field.split(".")[-1], name), key="C35.cache.store|" + name)
        ctx.check(seen == {"sampling_cutoff", "pruning_cutoff"}, "C35.cache.both", u.path, "both cutoffs are searched", key="C35.cache.both")
