"""C31 — Network head selection follows the best-head rule (sent-to and same-answer clauses)."""
from engine.rules import Cmp, Direct, Has, call_expr, call_sites_with, const_value, exit_sites, loop_heads, require_guard
from engine.mir import has_all, has_leaf

C = "lumina_node::p2p::header_ex::client::"
H = C + "HeaderExClientHandler::<S>::"
CLAUSE = (
    "Decides: head requests are sent only to peers that passed a filter whose accepting result requires "
    "is_connected() AND is_trusted(); the peers the request is sent to are exactly the filter's output (capped by "
    "MAX_PEERS = 10); in poll, every waiting head-request sender drained from head_reqs receives a clone of the one "
    "head value the finished task produced; the selection task prefers a response seen by MIN_HEAD_RESPONSES = 2 "
    "peers and falls back to the first (highest) response."
)
NOT_DECIDED = "The selection rule over arbitrary answer multisets (value-level); timing."
ENGINES = "G (filter closure), W (send only to filtered peers), S (same answer to all waiters), K"
ASSUMPTIONS = []


def run(ctx):
    f = ctx.anchor(H + "schedule_head_request", main=False)
    if f:
        flt = None
        for p in ctx.facts.family(f.path)[1:]:
            cb = ctx.fn(p)
            if cb.call_sites(["lumina_node::peer_tracker::Peer::is_trusted"]) and cb.call_sites(["lumina_node::peer_tracker::Peer::is_connected"]):
                flt = cb
        ctx.check(flt is not None, "C31.filter.found", f.path, "peer filter closure found", key="C31.filter.found")
        if flt is not None:
            ctx.functions.add(flt.path)
            require_guard(ctx, flt, Has("call:lumina_node::peer_tracker::Peer::is_connected", name="accept only connected peers"), "C31.filter.connected")
            require_guard(ctx, flt, Has("call:lumina_node::peer_tracker::Peer::is_trusted", name="accept only trusted peers"), "C31.filter.trusted")
            send = call_sites_with(ctx, f, ["*RequestSender::send_request"])
            ctx.check(len(send) == 1, "C31.send.site", f.path, "one send site for head requests", key="C31.send.site")
            for b in send:
                e = call_expr(f, b)
                ls = ctx.leaves(e[3][1]) if len(e[3]) > 1 else set()
                ctx.check(has_leaf(ls, "closure:" + flt.path) and has_leaf(ls, "call:*Iterator::take"), "C31.send.filtered", f.path, "request goes to a peer from the (connected AND trusted) filter, capped by take(MAX_PEERS)", site=f.loc(b), key="C31.send.filtered")
                ctx.check(has_leaf(ctx.leaves(e[3][2]), "call:*HeaderRequestExt*::head_request"), "C31.send.head", f.path, "the request is the head request", key="C31.send.head")
    ctx.check(const_value(ctx, C + "MAX_PEERS") == 10, "C31.K.max-peers", C + "MAX_PEERS", "MAX_PEERS = 10", key="C31.K.max-peers")
    mh = [c for c in ctx.facts.crates["lumina_node"].meta["consts"] if c["path"].endswith("::MIN_HEAD_RESPONSES")]
    ctx.check(len(mh) == 1 and mh[0].get("v") == 2, "C31.K.min-head", C + "MIN_HEAD_RESPONSES", "MIN_HEAD_RESPONSES = 2", key="C31.K.min-head")
    # best-head rule: when the candidates are put in order by a sort key (today's idiom), the key is
    # (height, number of reporting peers), descending - so that the first candidate with enough reporters
    # is the HIGHEST one. Other idioms (filter then max_by_key) have no sort key and are not judged here.
    from engine.mir import walk as _walk
    for q in ctx.facts.family(H + "schedule_head_request"):
        qb = ctx.fn(q)
        for blk in qb.call_sites(["*sort_unstable_by_key", "*sort_by_key", "*sort_by_cached_key"]):
            clos = [n[1] for n in _walk(call_expr(qb, blk)) if n[0] == "closure"]
            for cd in clos:
                cb = ctx.fn(cd)
                if cb is None:
                    continue
                for x in exit_sites(cb):
                    tup = None
                    rev = False
                    for n in _walk(x["expr"]):
                        if n[0] == "agg" and str(n[1]).endswith("Reverse"):
                            rev = True
                        if n[0] == "agg" and n[1] == "tuple" and tup is None:
                            tup = n
                    if tup is None or len(tup[3]) < 2:
                        continue
                    first, second = ctx.leaves(tup[3][0]), ctx.leaves(tup[3][1])
                    ok = rev and has_leaf(first, "call:*ExtendedHeader::height") and not has_leaf(second, "call:*ExtendedHeader::height") and has_leaf(second, "counter")
                    ctx.check(ok, "C31.best.sort-key", cb.path, "head candidates are ordered by (height, reporters) descending - height is the major key", site=x["loc"], key="C31.best.sort-key")
    p = ctx.anchor(H + "poll", main=False)
    if p:
        sends = [b for b in call_sites_with(ctx, p, ["*OneshotSender*::maybe_send_ok"]) if has_leaf(ctx.leaves(call_expr(p, b)), "a1.head_reqs")]
        ctx.check(len(sends) == 1, "C31.poll.site", p.path, "one answer site for waiting head requests", key="C31.poll.site")
        heads = loop_heads(ctx, p, ["a1.head_reqs"])
        ok = bool(sends) and bool(heads) and all(any(sb in p.reachable_from([en]) for nb, en in heads) for sb in sends)
        ctx.check(ok, "C31.poll.all-waiters", p.path, "the answer is sent inside a loop draining all of head_reqs", key="C31.poll.all-waiters")
        for b in sends:
            e = call_expr(p, b)
            ls = ctx.leaves(e[3][1])
            ctx.check(has_all(ls, ["call:*Clone::clone", "call:*poll_next_unpin"]) and not has_leaf(ls, "call:*Iterator::next"), "C31.poll.same-answer", p.path, "each waiter gets a clone of the single task result (the value does not depend on the waiter)", site=p.loc(b), key="C31.poll.same-answer")
