"""C05 — Row retrieval returns exactly the committed row."""
from engine.rules import Cmp, Has, aggregates, arm_regions, call_expr, call_sites_with, calls_in, exit_sites, per_iteration, require_guard, return_leaves, switches_on
from engine.mir import has_all, has_leaf, walk

T = "celestia_types::"
CLAUSE = (
    "Decides over all CFG paths: Row::verify accepts only past a comparison of the NMT root rebuilt from "
    "self.shares (every push_leaf `?`-checked) with dah.row_root(id.index), the missing root being rejected; the "
    "shrex ResponseCodec for Row returns Ok only past `?` on Row::from_raw and `?` on verify; Row::from_raw hands "
    "the codec the same data-shard count (the received half's length) on both half-side arms, its reconstruct arm "
    "marks the missing half with empty vectors (leopard's 'missing shard' convention, the same one the fraud-proof "
    "code uses), and the ODS/parity decision reads id.index, the column index and the half length; "
    "From<Row> for RawRow keeps exactly the first len/2 shares and labels them Left."
)
NOT_DECIDED = "Encode/decode value equality; Reed-Solomon reconstruction itself (leopard-codec)."
ENGINES = "G (must-check, per-iteration), S (sibling arms of the half-side match), D (dependence of encoder output)"
ASSUMPTIONS = ["leopard-codec encode/reconstruct and nmt-rs are opaque; leopard treats exactly the empty shards as missing (leopard-codec 0.2.0 lib.rs)"]


def run(ctx):
    f = ctx.anchor(T + "row::Row::verify")
    if f:
        require_guard(ctx, f, Cmp(["call:*::root", "call:*push_leaf", "a1.shares"], ["call:*DataAvailabilityHeader::row_root", "a2.index", "a3"], pass_op="Eq", name="nmt(self.shares).root == dah.row_root(id.index)"), "C05.verify.root")
        require_guard(ctx, f, Has("call:*DataAvailabilityHeader::row_root", "a2.index", name="missing row root rejected"), "C05.verify.root-present")
        per_iteration(ctx, f, ["a1.shares"], Has("call:*push_leaf", name="?push_leaf"), "C05.verify.push", "every share pushed into the tree with `?`")
    c = ctx.anchor("<celestia_types::row::Row as lumina_node::p2p::shrex::codec::ResponseCodec>::decode_and_verify")
    if c:
        require_guard(ctx, c, Has("call:*Row::from_raw", "a1", "a2", name="?Row::from_raw(req, decoded)"), "C05.codec.from_raw")
        require_guard(ctx, c, Has("call:*Row::verify", "a2", "a3", name="?row.verify(req, dah)"), "C05.codec.verify")
    r = ctx.anchor(T + "row::Row::from_raw")
    if r:
        enc = call_sites_with(ctx, r, ["leopard_codec::encode"])
        rec = call_sites_with(ctx, r, ["leopard_codec::reconstruct"])
        ctx.check(len(enc) == 1 and len(rec) == 1, "C05.from_raw.arms", r.path, "one encode arm (left half) and one reconstruct arm (right half)", key="C05.from_raw.arms")
        for b, nm in [(x, "encode") for x in enc] + [(x, "reconstruct") for x in rec]:
            e = call_expr(r, b)
            k = ctx.leaves(e[3][1]) if len(e[3]) > 1 else set()
            ctx.check(has_leaf(k, "len:a2.shares_half") and not any(n[0] == "bin" for n in walk(e[3][1])), "C05.from_raw.shards", r.path, "%s is given data_shards = shares_half.len()" % nm, site=r.loc(b), key="C05.from_raw.shards|" + nm)
        if rec:
            e = call_expr(r, rec[0])
            shards = e[3][0]
            # the placeholder element for the missing half
            rep = [n for n in walk(shards) if n[0] == "call" and n[2].endswith("repeat_n")]
            ok = False
            site = r.loc(rec[0])
            for n in rep:
                el = n[3][0]
                names = [m[2] for m in walk(el) if m[0] == "call"]
                ok = any(x.endswith("Vec::<T>::new") or x.endswith("Default::default") for x in names) and not any("from_elem" in x or "with_capacity" in x for x in names)
            ctx.check(ok, "C05.from_raw.missing-marker", r.path, "reconstruct arm marks the missing half with empty vectors (Vec::new), the codec's missing-shard convention", site=site, key="C05.from_raw.missing-marker")
        # both arms' codec result is ?-checked: no accepting exit bypasses the codec call of its arm
        require_guard(ctx, r, Has(["call:leopard_codec::encode", "call:leopard_codec::reconstruct"], name="?codec result"), "C05.from_raw.codec-checked")
        sw = switches_on(ctx, r, ["call:*half_side"])
        ctx.check(len(sw) >= 1, "C05.from_raw.half-side", r.path, "arm selected by row.half_side()", key="C05.from_raw.half-side")
        # ODS/parity decision inside the per-share closure
        fam = ctx.facts.family(r.path)
        found = False
        for p in fam[1:]:
            cb = ctx.fn(p)
            s1 = switches_on(ctx, cb, [["row_index", "a1.0"], "data_shares"])
            sws = []
            for b in sorted(cb.reachable_from([0])):
                t = cb.blocks[b]["t"]
                if t["k"] == "switch":
                    sws.append(ctx.leaves(cb.switch_discr_expr(b)))
            if any(has_leaf(l, "row_index") and has_leaf(l, "data_shares") for l in sws) and any(has_leaf(l, "data_shares") and (has_leaf(l, "a2") or has_leaf(l, "a2.0")) for l in sws):
                calls = [cb.blocks[b]["t"] for b in range(cb.n)]
                if cb.call_sites(["*Share::from_raw"]) and cb.call_sites(["*Share::parity"]):
                    found = True
        ctx.check(found, "C05.from_raw.quadrant", r.path, "per-share ODS/parity decision compares both the row index and the column index with the half length", key="C05.from_raw.quadrant")
        require_guard(ctx, r, Has("call:*Iterator::collect", name="?collect of per-share conversions"), "C05.from_raw.shares-checked")
    e = ctx.anchor("celestia_types::row::<impl core::convert::From<celestia_types::row::Row> for celestia_proto::shwap::Row>::from")
    if e:
        ags = aggregates(ctx, e, "celestia_proto::shwap::Row")
        ok = False
        if ags:
            fields = ags[0][1]
            sh = ctx.leaves(fields.get("shares_half", ("unknown",)))
            hs = ctx.leaves(fields.get("half_side", ("unknown",)))
            ok = has_all(sh, ["call:*Iterator::take", "len:a1.shares", "lit:2"]) and has_leaf(sh, "a1.shares")
            left = any(n[0] == "agg" and n[2] == "Left" for n in walk(fields.get("half_side", ("unknown",))))
            ctx.check(left, "C05.encode.side", e.path, "encoded half is labelled Left", key="C05.encode.side")
        ctx.check(ok, "C05.encode.half", e.path, "encoder keeps the first shares.len()/2 shares", key="C05.encode.half")
