"""C38 — The syncer keeps the store on the network's chain and converges (safety half)."""
from engine.rules import Cmp, Has, all_call_sites, call_expr, call_sites_with, exit_sites, require_guard, root_fn
from engine.mir import has_all, has_leaf

N = "lumina_node::"
CLAUSE = (
    "Decides the safety half structurally: the only non-test callers of Store::insert / announce_insert in the node "
    "are the store wrappers themselves, BroadcastingStore::announce_insert, Syncer::try_init (network head obtained "
    "from the header-ex client, C28/C31), Worker::on_header_sub_message and Worker::on_fetch_next_batch_result; the "
    "batch result comes from P2p::get_unverified_header_range, whose every accepting exit is past `?` on "
    "verify_adjacent_range of the received headers (and an empty answer is rejected); the header-sub handler of the "
    "p2p worker forwards a header (try_send) and returns Accept only past ExtendedHeader::decode_and_validate and "
    "known_head.verify(&header); every insert goes through the VerifiedExtendedHeaders conversion and the store's "
    "neighbour verification (C02, C21)."
)
NOT_DECIDED = "Convergence (liveness) and behaviour over adversarial schedules."
ENGINES = "W (who-may-insert), G (must-check on the feeding paths)"
ASSUMPTIONS = ["C02, C21, C28 hold"]
ALLOWED = {
    N + "node::subscriptions::BroadcastingStore::<S>::announce_insert",
    "<lumina_node::store::either_store::EitherStore<L, R> as lumina_node::store::Store>::insert",
    "<lumina_node::store::in_memory_store::InMemoryStore as lumina_node::store::Store>::insert",
    "<lumina_node::store::redb_store::RedbStore as lumina_node::store::Store>::insert",
    N + "syncer::Worker::<S>::on_header_sub_message",
    N + "syncer::Worker::<S>::on_fetch_next_batch_result",
    N + "syncer::try_init",
}


def run(ctx):
    from rules.C24 import calc_adjacent_rule
    calc_adjacent_rule(ctx, "C38")
    sites = all_call_sites(ctx, ["lumina_node"], [N + "store::Store::insert", "*BroadcastingStore*::announce_insert", "*InMemoryStore::insert", "*RedbStore::insert"])
    ctx.floor("C38.insert.sites", "store insertion call sites", len(sites), 7)
    for b, blk in sites:
        ctx.check(root_fn(b.path) in ALLOWED, "C38.insert.caller", b.path, "store insertion only from the syncer paths and the store wrappers", site=b.loc(blk), key="C38.insert.caller|" + root_fn(b.path))
    g = ctx.anchor(N + "p2p::P2p::get_unverified_header_range")
    if g:
        require_guard(ctx, g, Has("call:*ExtendedHeader::verify_adjacent_range", "call:*HeaderSession::run", name="?head.verify_adjacent_range(rest of the received headers)"), "C38.batch.verified")
        require_guard(ctx, g, Has("call:*::first", "call:*HeaderSession::run", name="empty answer rejected"), "C38.batch.nonempty")
        require_guard(ctx, g, Has("call:*::is_empty", "range", name="empty request rejected"), "C38.batch.request")
    r = ctx.anchor(N + "syncer::Worker::<S>::on_fetch_next_batch_result")
    if r:
        ins = call_sites_with(ctx, r, ["*BroadcastingStore*::announce_insert"])
        ok = len(ins) == 1 and has_leaf(ctx.leaves(call_expr(r, ins[0])), "res")
        ctx.check(ok, "C38.batch.source", r.path, "inserted headers are the batch task's result", key="C38.batch.source")
    f = ctx.anchor(N + "syncer::Worker::<S>::fetch_next_batch")
    if f:
        from rules.C24 import request_sites
        ctx.check(len(request_sites(ctx, f)) == 1, "C38.batch.task", f.path, "the batch task calls P2p::get_unverified_header_range", key="C38.batch.task")
    h = ctx.anchor(N + "p2p::Worker::<B, S>::on_header_sub_message", main=False)
    if h:
        fwd = call_sites_with(ctx, h, ["tokio::sync::mpsc::bounded::Sender::<T>::try_send", "*Sender*::try_send", "*Sender*::send"])
        ctx.check(len(fwd) == 1, "C38.sub.forward-site", h.path, "one forwarding site to the syncer", key="C38.sub.forward-site")
        if fwd:
            require_guard(ctx, h, Has("call:*ExtendedHeader::decode_and_validate", "a2", name="decode_and_validate(data) succeeded"), "C38.sub.validated", targets=fwd)
            require_guard(ctx, h, Has("call:*ExtendedHeader::verify", "a1.header_sub_state", name="known_head.verify(&header) succeeded"), "C38.sub.verified", targets=fwd)
            ctx.check(has_leaf(ctx.leaves(call_expr(h, fwd[0])), "call:*ExtendedHeader::decode_and_validate"), "C38.sub.forwards-validated", h.path, "the forwarded header is the validated one", key="C38.sub.forwards-validated")
    t = ctx.anchor(N + "syncer::try_init")
    if t:
        ins = call_sites_with(ctx, t, [N + "store::Store::insert"])
        ok = len(ins) == 1 and has_leaf(ctx.leaves(call_expr(t, ins[0])), "call:" + N + "p2p::P2p::get_head_header")
        ctx.check(ok, "C38.init.source", t.path, "the header inserted at initialisation is the network head from the header-ex client", key="C38.init.source")
