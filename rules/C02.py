"""C02 — Header chain verification accepts exactly linked successors."""
from engine.rules import Cmp, Has, all_aggregate_sites, all_call_sites, call_expr, call_sites_with, const_value, exit_sites, holds, per_iteration, require_guard, root_fn
from engine.mir import has_all, has_leaf

T = "celestia_types::"
EH = T + "extended_header::ExtendedHeader::"
CLAUSE = (
    "Decides the guard formula of ExtendedHeader::verify over all CFG paths: every accepting exit is past "
    "untrusted.height > self.height (strict), equal chain ids, untrusted.time after self.time, untrusted.time before "
    "now + VERIFY_CLOCK_DRIFT (10 s), and either [adjacency test passed AND validators_hash == self.next_validators_hash "
    "AND last_header_hash == self.hash()] or [`?` on verify_commit_light_trusting(self.chain_id, untrusted.commit, "
    "DEFAULT_TRUST_LEVEL = 1/3) on self.validator_set]; verify_adjacent / verify_adjacent_range test adjacency to "
    "self before delegating; verify_range checks in-list adjacency and `?`-verifies each element against its "
    "predecessor; TryFrom<Vec<ExtendedHeader>> for VerifiedExtendedHeaders accepts a non-empty list only past `?` on "
    "verify_adjacent_range; VerifiedExtendedHeaders can only be built by the three single-header From impls, that "
    "TryFrom and the unsafe new_unchecked, which has no non-test caller."
)
NOT_DECIDED = "The accept direction; arithmetic of the 1/3 threshold (C03); clock behaviour."
ENGINES = "G (per-exit disjunctive formula), W (constructor allow-list, unsafe callers), K (1/3, 10 s)"
ASSUMPTIONS = ["tendermint Time::after/before/now and Header::hash are opaque"]


def run(ctx):
    f = ctx.anchor(EH + "verify")
    if f:
        H = "call:*ExtendedHeader::height"
        require_guard(ctx, f, Cmp(["a2", H], ["a1", H], pass_op="Gt", name="untrusted.height() > self.height()"), "C02.verify.height")
        require_guard(ctx, f, Cmp(["a2", "call:*ExtendedHeader::chain_id"], ["a1", "call:*ExtendedHeader::chain_id"], pass_op="Eq", name="same chain id"), "C02.verify.chain")
        require_guard(ctx, f, Has("call:*Time::after", "a1", "a2", name="untrusted.time().after(self.time())"), "C02.verify.after")
        require_guard(ctx, f, Has("call:*Time::before", "call:*Time::now", "const:*VERIFY_CLOCK_DRIFT", "a2", name="untrusted.time() before now + drift"), "C02.verify.drift")
        adj = Cmp(["a1", H, "lit:1"], ["a2", H], pass_op="Eq", name="self.height()+1 == untrusted.height()")
        nv = Cmp(["a2.header.validators_hash"], ["a1.header.next_validators_hash"], pass_op="Eq", name="validators_hash == next_validators_hash")
        par = Cmp(["a2", "call:*ExtendedHeader::last_header_hash"], ["a1", "call:*ExtendedHeader::hash"], pass_op="Eq", name="last_header_hash == self.hash()")
        tr = Has("call:*ValidatorSetExt*::verify_commit_light_trusting", "a1.validator_set", "a2.commit", ["const:*DEFAULT_TRUST_LEVEL", "call:*TrustLevelRatio::new"], name="?verify_commit_light_trusting")
        ex = [x for x in exit_sites(f) if x["kind"] in ("accept", "may")]
        ctx.check(len(ex) >= 1, "C02.verify.exits", f.path, "accepting exits found: %d" % len(ex), key="C02.verify.exits")
        for x in ex:
            t = [x["block"]]
            a_ok = holds(ctx, f, adj, t)[0] and holds(ctx, f, nv, t)[0] and holds(ctx, f, par, t)[0]
            t_ok = holds(ctx, f, tr, t)[0]
            ctx.check(a_ok or t_ok, "C02.verify.link", f.path,
                      "accepting exit at %s is past (adjacent AND next-validators AND parent-hash) OR trusting commit verification" % x["loc"],
                      site=x["loc"], key="C02.verify.link|" + ("adjacent" if holds(ctx, f, adj, t)[0] else "skipping"),
                      detail=dict(adjacent_arm=a_ok, trusting_arm=t_ok))
    # the non-adjacent arm relies on the trusting verification counting every trusted validator once
    from rules.C03 import TRUST, SEEN, seen_key_rule
    g = ctx.anchor(TRUST)
    if g:
        tally = call_sites_with(ctx, g, ["*validator::Info::power"])
        if tally:
            require_guard(ctx, g, Has(SEEN, name="double-vote lookup rejects before tally"), "C02.trusting.double-vote", targets=tally)
        seen_key_rule(ctx, g, "C02")
        require_guard(ctx, g, Cmp(["call:*validator::Info::power"], ["call:*TrustLevelRatio::voting_power_needed"], pass_op="Gt", name="accept only on tallied > needed"), "C02.trusting.threshold")
    k = const_value(ctx, T + "extended_header::VERIFY_CLOCK_DRIFT")
    va = ctx.anchor(EH + "verify_adjacent")
    if va:
        require_guard(ctx, va, Cmp(["a1", "call:*ExtendedHeader::height", "lit:1"], ["a2", "call:*ExtendedHeader::height"], pass_op="Eq", name="self.height()+1 == untrusted.height()"), "C02.adjacent.adj")
        require_guard(ctx, va, Has("call:*ExtendedHeader::verify", "a1", "a2", name="result of self.verify(untrusted)"), "C02.adjacent.verify")
    vr = ctx.anchor(EH + "verify_range")
    if vr:
        per_iteration(ctx, vr, ["a2"], Has("call:*ExtendedHeader::verify", "a2", name="?trusted.verify(untrusted)"), "C02.range.verify", "every element ?-verified against its predecessor")
        per_iteration(ctx, vr, ["a2"], Cmp(["call:*ExtendedHeader::height", "lit:1"], ["call:*ExtendedHeader::height", "a2"], pass_op="Eq", name="previous.height() + 1 == current.height() inside the list"), "C02.range.adjacent", "every non-first element is adjacent to its predecessor",
                      nonfirst=Cmp(["call:*Iterator*::next", "call:*::enumerate"], ["lit:0"], name="enumeration index != 0"))
        # receiver of verify is the previous element (or self), the argument the current one
        vs = call_sites_with(ctx, vr, ["*ExtendedHeader::verify"])
        ok = bool(vs)
        for b in vs:
            e = call_expr(vr, b)
            recv, arg = ctx.leaves(e[3][0]), ctx.leaves(e[3][1])
            ok = ok and has_leaf(recv, "a1") and has_leaf(recv, "a2") and has_leaf(arg, "a2") and not has_leaf(arg, "a1")
        ctx.check(ok, "C02.range.direction", vr.path, "verify is called on the trusted predecessor (self or previous element) with the current element as argument", key="C02.range.direction")
    var = ctx.anchor(EH + "verify_adjacent_range")
    if var:
        ex = [x for x in exit_sites(var) if x["kind"] in ("accept", "may")]
        nonempty = [x["block"] for x in ex if not holds(ctx, var, Has("len:a2", name="empty list"), [x["block"]])[0] or x["kind"] == "may"]
        require_guard(ctx, var, Has("call:*ExtendedHeader::verify_range", "a1", "a2", name="result of self.verify_range(untrusted)"), "C02.adjrange.verify", targets=[x["block"] for x in ex if x["kind"] == "may"] or None)
        require_guard(ctx, var, Cmp(["a1", "call:*ExtendedHeader::height", "lit:1"], ["a2", "call:*ExtendedHeader::height"], pass_op="Eq", name="self.height()+1 == untrusted[0].height()"), "C02.adjrange.adj", targets=[x["block"] for x in ex if x["kind"] == "may"] or None)
        empties = [x for x in ex if x["kind"] == "accept"]
        ok = all(holds(ctx, var, Has("len:a2"), [x["block"]])[0] for x in empties)
        ctx.check(ok, "C02.adjrange.empty", var.path, "the only unconditional Ok is for the empty list", key="C02.adjrange.empty")
    tf = ctx.anchor("<lumina_node::store::utils::VerifiedExtendedHeaders as core::convert::TryFrom<alloc::vec::Vec<celestia_types::extended_header::ExtendedHeader>>>::try_from")
    if tf:
        ex = [x for x in exit_sites(tf) if x["kind"] in ("accept", "may")]
        ne = []
        for x in ex:
            if holds(ctx, tf, Has("call:*verify_adjacent_range"), [x["block"]])[0]:
                continue
            ne.append(x)
        # exits not past verify_adjacent_range must be the empty-vector arm
        ok = all(holds(ctx, tf, Has(["call:*::first", "len:a1"]), [x["block"]])[0] and not has_leaf(ctx.leaves(x["expr"]), "a1") for x in ne)
        ctx.check(ok and len(ex) > len(ne), "C02.verified.tryfrom", tf.path, "non-empty Vec accepted only past ?head.verify_adjacent_range(rest); the other exit returns an empty vector", key="C02.verified.tryfrom")
    # W: who may construct VerifiedExtendedHeaders
    allowed = (
        "<lumina_node::store::utils::VerifiedExtendedHeaders as core::convert::From<[celestia_types::extended_header::ExtendedHeader; 1]>>::from",
        "<lumina_node::store::utils::VerifiedExtendedHeaders as core::convert::From<celestia_types::extended_header::ExtendedHeader>>::from",
        "<lumina_node::store::utils::VerifiedExtendedHeaders as core::convert::From<&celestia_types::extended_header::ExtendedHeader>>::from",
        "<lumina_node::store::utils::VerifiedExtendedHeaders as core::convert::TryFrom<alloc::vec::Vec<celestia_types::extended_header::ExtendedHeader>>>::try_from",
        "lumina_node::store::utils::VerifiedExtendedHeaders::new_unchecked",
        "<lumina_node::store::utils::VerifiedExtendedHeaders as core::clone::Clone>::clone",
    )
    sites = all_aggregate_sites(ctx, ["lumina_node"], "lumina_node::store::utils::VerifiedExtendedHeaders")
    ctx.floor("C02.verified.ctor-sites", "constructions of VerifiedExtendedHeaders", len(sites), 5)
    for b, blk, i, r in sites:
        ctx.check(root_fn(b.path) in allowed, "C02.verified.ctor", b.path, "VerifiedExtendedHeaders built only by the verified conversions", site=b.loc(blk, i), key="C02.verified.ctor|" + root_fn(b.path))
    adt = ctx.facts.adt("lumina_node::store::utils::VerifiedExtendedHeaders")
    ctx.check(adt is not None and all(fl[2] != "pub" for v in adt["variants"] for fl in v["fields"]), "C02.verified.private", "lumina_node::store::utils::VerifiedExtendedHeaders", "inner vector is private", key="C02.verified.private")
    fm = ctx.facts.fn_meta("lumina_node::store::utils::VerifiedExtendedHeaders::new_unchecked")
    ctx.check(fm is not None and fm["unsafe"], "C02.verified.unsafe", "lumina_node::store::utils::VerifiedExtendedHeaders::new_unchecked", "new_unchecked is an unsafe fn", key="C02.verified.unsafe")
    callers = all_call_sites(ctx, ["lumina_node", "celestia_grpc"], ["*VerifiedExtendedHeaders::new_unchecked"])
    ctx.check(len(callers) == 0, "C02.verified.unchecked-callers", "-", "no non-test caller of new_unchecked (found %d)" % len(callers), key="C02.verified.unchecked-callers")
    # K
    tl = ctx.fn(T + "trust_level::DEFAULT_TRUST_LEVEL")
    ctx.notes.append("VERIFY_CLOCK_DRIFT const: %r" % (k,))
