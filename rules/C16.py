"""C16 — Decoding network input never panics."""
from rules.conelib import run_cone
from engine.rules import all_call_sites, root_fn

T = "celestia_types::"
N = "lumina_node::"
CLAUSE = (
    "Decides: in lumina's own code reachable (call cone over resolved callees, trait-object/type-parameter calls "
    "expanded to every local impl, extern generic entry points expanded to the local Message/TryFrom/From/Default "
    "impls of their type arguments) from every decoder of peer-supplied bytes there is no UNGUARDED panic-capable "
    "construct: each overflow/bounds/division Assert terminator of the dev profile and each call of a panicking API "
    "(unwrap/expect, indexing and slicing, split_at, copy_from_slice, chunks, Vec::remove/drain/split_off, "
    "Buf::get_*/advance, explicit panic!/unreachable!/assert!/debug_assert!) is either discharged by a sound local "
    "argument (constant operands, fixed-array bounds, width intervals through casts) or matched by an audited entry "
    "that names the type invariant or the dominating guard it relies on - and that guard is re-checked on every run. "
    "Extern entry points with a panic precondition are sites too: every leopard_codec::encode/reconstruct call is "
    "guarded (non-empty row, shares.len() == square width), and nmt-rs proof verification is called only from "
    "NamespaceProof::verify_range / verify_complete_namespace, which `?`-call validate_structure first (enough "
    "siblings for popcount(start_idx); left siblings, leaves, right siblings ordered by namespace). Thorough tier: the "
    "same clause over the MIR of the pinned nmt-rs (whole crate) and leopard-codec (entry functions) reached from "
    "the same roots, against tables/panic_audit_deps.json."
)
NOT_DECIDED = "Panics inside dependencies other than nmt-rs and the entry functions of leopard-codec (prost, tendermint, libp2p; leopard's FFT kernels); memory exhaustion; stack depth."
ENGINES = "P (panic-site cone with discharge), root-completeness cross-check, G/W (guards in front of extern entry points); thorough: P over the pinned nmt-rs / leopard-codec MIR"
ASSUMPTIONS = ["dependencies other than nmt-rs / leopard-codec entry functions do not panic when their documented preconditions hold", "leopard-codec's FFT kernels are safe for the shard shapes its entry functions validated", "overflow checks are those of the dev profile (debug assertions on)"]
ROOTS = [
    T + "extended_header::ExtendedHeader::decode_and_validate", T + "sample::Sample::decode", T + "row::Row::decode",
    T + "row_namespace_data::RowNamespaceData::decode", T + "namespace_data::NamespaceData::from_raw",
    "<celestia_types::row::Row as lumina_node::p2p::shrex::codec::ResponseCodec>::decode_and_verify",
    "<celestia_types::sample::Sample as lumina_node::p2p::shrex::codec::ResponseCodec>::decode_and_verify",
    "<celestia_types::eds::ExtendedDataSquare as lumina_node::p2p::shrex::codec::ResponseCodec>::decode_and_verify",
    "<celestia_types::namespace_data::NamespaceData as lumina_node::p2p::shrex::codec::ResponseCodec>::decode_and_verify",
    "<lumina_node::p2p::shwap::ShwapMultihasher<S> as beetswap::multihasher::Multihasher<MAX_MH_SIZE>>::hash",
    N + "p2p::shwap::get_block_container",
    "<lumina_node::p2p::header_ex::HeaderCodec as libp2p_request_response::codec::Codec>::read_request",
    "<lumina_node::p2p::header_ex::HeaderCodec as libp2p_request_response::codec::Codec>::read_response",
    "<celestia_proto::p2p::pb::HeaderResponse as lumina_node::p2p::header_ex::utils::HeaderResponseExt>::to_validated_extented_header",
    "<celestia_types::byzantine::BadEncodingFraudProof as celestia_types::fraud_proof::FraudProof>::validate",
    N + "p2p::Worker::<B, S>::on_header_sub_message", N + "p2p::Worker::<B, S>::on_bad_encoding_fraud_sub_message",
    N + "p2p::shrex::client::GenericRequestContext::<TReq, TResp>::decode_verify_respond",
    N + "p2p::shrex::client::request_response_task", N + "p2p::shrex::pool_tracker::EdsNotification::deserialize_and_validate",
]
# store / event plumbing reached from the gossip handlers is not a decoder of peer bytes
STOP = [N + "store::*", "<lumina_node::store::*", N + "events::*", N + "block_ranges::*", "<*as lumina_node::block_ranges::*", N + "p2p::swarm_manager::*", N + "peer_tracker::*"]
DECODERS = ["prost::message::Message::decode", "prost::message::Message::decode_length_delimited", "tendermint_proto::Protobuf::decode", "tendermint_proto::Protobuf::decode_length_delimited",
            "cid::cid::Cid::<S>::read_bytes", "prost::encoding::length_delimiter::decode_length_delimiter", "integer_encoding::varint::VarInt::decode_var"]


NP = T + "nmt::namespace_proof::NamespaceProof::"
NMT_VERIFY = ["nmt_rs::nmt_proof::NamespaceProof::<M, NS_ID_SIZE>::verify_range", "nmt_rs::nmt_proof::NamespaceProof::<M, NS_ID_SIZE>::verify_complete_namespace"]


def nmt_shape_rules(ctx):
    """nmt-rs panics on proofs that do not have the shape of a range proof (found by the thorough
    dependency cone: hash_nodes ordering panic, sibling indexing by popcount(start)). lumina therefore
    validates the shape first; these rules keep that validation in front of every nmt-rs verification."""
    from engine.rules import Cmp, Has, call_sites_with, per_iteration, require_guard

    sites = all_call_sites(ctx, ["celestia_types", "lumina_node", "celestia_grpc"], NMT_VERIFY)
    ctx.floor("C16.nmt.sites", "call sites of nmt-rs proof verification", len(sites), 2)
    wrappers = {NP + "verify_range", NP + "verify_complete_namespace"}
    for b, blk in sites:
        ctx.check(root_fn(b.path) in wrappers, "C16.nmt.wrapped", b.path, "nmt-rs proof verification is called only from the validating NamespaceProof wrappers", site=b.loc(blk), key="C16.nmt.wrapped|" + root_fn(b.path))
        if root_fn(b.path) in wrappers:
            ctx.functions.add(b.path)
            require_guard(ctx, b, Has("call:" + NP + "validate_structure", "a1", name="?self.validate_structure(..) before delegating to nmt-rs"), "C16.nmt.validated", targets=[blk])
    v = ctx.anchor(NP + "validate_structure")
    if v:
        require_guard(ctx, v, Cmp(["len:a1", "call:*::siblings"], ["call:*::count_ones", "call:*::start_idx"], pass_op="Ge", name="siblings.len() >= popcount(start_idx)"), "C16.nmt.sibling-count")
        # the ordering loop: every element is rejected unless min <= max and previous max <= min
        fam = [v] + [ctx.fn(p) for p in ctx.facts.family(v.path)[1:]]
        loops = [b for b in v.call_sites(["*Iterator*::next"])]
        ctx.check(bool(loops), "C16.nmt.order-loop", v.path, "loop over [left siblings, leaves, right siblings]", key="C16.nmt.order-loop")
        lv = set()
        for b in range(v.n):
            if v.blocks[b]["t"]["k"] == "switch":
                lv |= ctx.leaves(v.switch_discr_expr(b))
        cmp_calls = [b for b in sorted(v.reachable_from([0])) if v.blocks[b]["t"]["k"] == "call" and std_tail_of(v.blocks[b]["t"]) in ("PartialOrd::gt", "PartialOrd::lt", "PartialOrd::le", "PartialOrd::ge")]
        inner_cmp = 0
        for cb in fam[1:]:
            inner_cmp += len([b for b in range(cb.n) if cb.blocks[b]["t"]["k"] == "call" and std_tail_of(cb.blocks[b]["t"]) in ("PartialOrd::gt", "PartialOrd::lt", "PartialOrd::le", "PartialOrd::ge")])
        ctx.check(len(cmp_calls) + inner_cmp >= 2, "C16.nmt.order-cmp", v.path, "two namespace order comparisons per element (min <= max, previous max <= min): %d" % (len(cmp_calls) + inner_cmp), key="C16.nmt.order-cmp")
        rej = [x for x in exit_sites_of(v) if x["kind"] == "reject"]
        ctx.check(len(rej) >= 3, "C16.nmt.rejects", v.path, "validate_structure has a rejecting exit for each violated condition: %d" % len(rej), key="C16.nmt.rejects")


def std_tail_of(t):
    from engine.mir import std_tail
    return std_tail(t["f"]) if "f" in t else None


def exit_sites_of(b):
    from engine.rules import exit_sites
    return exit_sites(b)


def run(ctx):
    cone, sites = run_cone(ctx, "C16", ROOTS, 250, stop=STOP)
    nmt_shape_rules(ctx)
    # root completeness: every wire decoder call in lumina_node::p2p lies in the cone
    calls = all_call_sites(ctx, ["lumina_node"], DECODERS, path_filter=lambda p: p.startswith((N + "p2p", "<")) and "lumina_node::p2p" in p)
    ctx.floor("C16.decoder-calls", "wire decoder call sites in lumina_node::p2p", len(calls), 8)
    for b, blk in calls:
        ctx.check(b.path in cone.bodies, "C16.rooted", b.path, "wire decoder call lies in the cone of a listed root", site=b.loc(blk), key="C16.rooted|" + root_fn(b.path))


DEP_AUDIT = __import__("os").path.join(__import__("os").path.dirname(__import__("os").path.dirname(__import__("os").path.abspath(__file__))), "tables", "panic_audit_deps.json")


# the FFT kernels of leopard-codec work on buffers whose shapes encode()/reconstruct() validated; they are
# data-independent table-driven arithmetic (225 index/arith sites) and are not audited site by site
DEP_STOP = STOP + ["leopard_codec::encode_inner", "leopard_codec::reconstruct_inner"]


def run_thorough(ctx):
    """Thorough tier: the cone continues into the pinned nmt-rs and leopard-codec (their MIR is extracted
    from the versions named in /repo/Cargo.lock); every panic-capable site of those two crates that the
    decode paths reach must be discharged or audited in tables/panic_audit_deps.json."""
    from engine.facts import DEP_CRATES

    ctx.facts.load_deps()
    dep = lambda s: ctx.facts.crate_of(s.body.path) in DEP_CRATES  # noqa: E731
    cone, sites = run_cone(ctx, "C16.dep", ROOTS, 250, stop=DEP_STOP, extra_filter=dep, audit_path=DEP_AUDIT, coverage_key="dependency_cone")
    nd = len([p for p in cone.bodies if ctx.facts.crate_of(p) in DEP_CRATES])
    ctx.floor("C16.dep.cone-size", "bodies of nmt-rs / leopard-codec in the decode cone", nd, 20)
    ctx.extra_coverage["dependency_cone"]["dependency_bodies"] = nd
