"""C29 — Header-ex server answers every request correctly without crashing."""
from rules.conelib import run_cone
from engine.rules import Cmp, Has, const_value, call_expr, call_sites_with, require_guard
from engine.mir import has_leaf, has_all

N = "lumina_node::"
S = N + "p2p::header_ex::server::"
CLAUSE = (
    "Decides (1) 'without panicking': no unguarded panic-capable construct (engine P) in the cone of the header-ex "
    "server handler (on_request_received, the three request tasks, parse_request, HeaderRequestExt::is_valid, the "
    "response builders); (2) an invalid request is routed to handle_invalid_request; (3) the by-height loop bound is "
    "amount.min(MAX_HEADERS_AMOUNT_RESPONSE) with MAX_HEADERS_AMOUNT_RESPONSE = 512; (4) an empty result is answered "
    "with a single not-found response."
)
NOT_DECIDED = "That the returned run is the longest consecutive stored run (value-level); libp2p plumbing."
ENGINES = "P (panic cone), G, K"
ASSUMPTIONS = []
ROOTS = [
    S + "HeaderExServerHandler::<S, R>::on_request_received", S + "HeaderExServerHandler::<S, R>::handle_request_current_head",
    S + "HeaderExServerHandler::<S, R>::handle_request_by_hash", S + "HeaderExServerHandler::<S, R>::handle_request_by_height",
    S + "HeaderExServerHandler::<S, R>::handle_invalid_request", S + "parse_request",
]
STOP = ["celestia_types::*", "<celestia_types::*", "<tendermint::*", N + "store::*", "<lumina_node::store::*", N + "events::*", N + "block_ranges::*"]


def run(ctx):
    run_cone(ctx, "C29", ROOTS, 10, stop=STOP)
    k = const_value(ctx, S + "MAX_HEADERS_AMOUNT_RESPONSE")
    ctx.check(k == 512, "C29.K.cap", S + "MAX_HEADERS_AMOUNT_RESPONSE", "MAX_HEADERS_AMOUNT_RESPONSE = 512 (found %r)" % (k,), key="C29.K.cap")
    f = ctx.anchor(S + "HeaderExServerHandler::<S, R>::on_request_received", main=False)
    if f:
        inv = f.call_sites([S + "HeaderExServerHandler::<S, R>::handle_invalid_request"])
        hs = f.call_sites([S + "HeaderExServerHandler::<S, R>::handle_request_current_head", S + "HeaderExServerHandler::<S, R>::handle_request_by_height", S + "HeaderExServerHandler::<S, R>::handle_request_by_hash"])
        ctx.check(len(inv) == 1 and len(hs) == 3, "C29.dispatch.sites", f.path, "one invalid-request responder and three request handlers", key="C29.dispatch.sites")
        if hs:
            require_guard(ctx, f, Has("call:" + S + "parse_request", "a4", name="request parsed and valid before any handler runs"), "C29.dispatch.valid-first", targets=hs)
        if inv:
            # the None edge of parse_request leads to the invalid responder
            conds = [(s, lab) for s, lab, d in f.edge_conditions(inv[0]) if has_leaf(ctx.leaves(f.switch_discr_expr(s)), "call:" + S + "parse_request")]
            ctx.check(any(lab != 1 for _, lab in conds), "C29.dispatch.invalid", f.path, "an unparsable/invalid request is answered by handle_invalid_request", key="C29.dispatch.invalid")
    p = ctx.anchor(S + "parse_request", main=False)
    if p:
        require_guard(ctx, p, Has("call:*HeaderRequestExt*::is_valid", "a1", name="is_valid() false -> None"), "C29.parse.valid")
    hi = ctx.anchor(S + "HeaderExServerHandler::<S, R>::handle_invalid_request", main=False)
    if hi:
        sr = call_sites_with(ctx, hi, ["*ResponseSender::send_response"])
        ok = len(sr) == 1 and has_leaf(ctx.leaves(call_expr(hi, sr[0])), "call:*HeaderResponseExt*::invalid")
        ctx.check(ok, "C29.invalid.single", hi.path, "invalid request -> exactly one `invalid` response", key="C29.invalid.single")
    # by-height task: loop bound and not-found fallback
    task = None
    for q in ctx.facts.family(S + "HeaderExServerHandler::<S, R>::handle_request_by_height")[1:]:
        b = ctx.fn(q)
        if b.call_sites(["lumina_node::store::Store::get_by_height"]):
            task = b
    ctx.check(task is not None, "C29.by-height.task", S + "HeaderExServerHandler::<S, R>::handle_request_by_height", "by-height task body found", key="C29.by-height.task")
    if task is not None:
        ctx.functions.add(task.path)
        rng = [n for b in range(task.n) for st in task.stmts(b) if st["r"]["k"] == "agg" and str(st["r"].get("adt", "")).endswith("ops::range::Range") for n in [task.expr_rvalue(st["r"], (), b, 0)]]
        ok = bool(rng) and all(has_all(ctx.leaves(r), ["origin", "amount", ["call:*Ord::min", "call:*cmp::min", "call:*::min"], "const:" + S + "MAX_HEADERS_AMOUNT_RESPONSE"]) for r in rng)
        ctx.check(ok, "C29.by-height.bound", task.path, "iterated range is origin .. origin + amount.min(MAX_HEADERS_AMOUNT_RESPONSE)", key="C29.by-height.bound")
        nf = call_sites_with(ctx, task, ["*HeaderResponseExt*::not_found"])
        ok = len(nf) == 1
        if ok:
            conds = [s for s, lab, d in task.edge_conditions(nf[0]) if has_leaf(ctx.leaves(task.switch_discr_expr(s)), ["call:*Vec*::is_empty", "call:*Vec*::len"])]
            ok = bool(conds)
        ctx.check(ok, "C29.by-height.not-found", task.path, "an empty result is answered with a single not-found", key="C29.by-height.not-found")
