"""Shared recognisers for the header-store rules (C19-C23)."""
from engine.mir import call_matches, callee_of, has_leaf, std_tail
from engine.rules import call_expr

IM = "lumina_node::store::in_memory_store::"
RB = "lumina_node::store::redb_store::"
MUT_TAILS = {
    "HashMap::insert", "HashMap::remove", "HashMap::retain", "HashMap::clear", "HashMap::extend", "HashMap::drain",
    "VacantEntry::insert", "OccupiedEntry::insert", "OccupiedEntry::remove", "OccupiedEntry::remove_entry",
    "Entry::or_insert", "Entry::or_insert_with", "Entry::or_default", "Entry::and_modify", "Entry::insert_entry",
    "Vec::push", "Vec::extend", "Vec::retain", "Vec::clear", "Vec::dedup", "Vec::remove", "Vec::insert",
    "Vec::truncate", "Vec::append", "Vec::pop", "Vec::swap_remove", "Vec::drain", "Extend::extend",
    "HashSet::insert", "HashSet::remove", "HashSet::clear", "HashSet::retain",
}
LOCAL_MUT = ["*BlockRanges::insert_relaxed", "*BlockRanges::remove_relaxed", "*BlockRanges::pop_head", "*BlockRanges::pop_tail"]
NONMUT_TAILS = {"HashMap::entry", "HashMap::get_mut", "OccupiedEntry::get_mut", "OccupiedEntry::get", "OccupiedEntry::into_mut", "DerefMut::deref_mut", "Vec::iter_mut", "IntoIterator::into_iter"}
REDB_WRITES = ["redb::table::Table::<*>::insert", "redb::table::Table::<*>::remove", "redb::table::Table::<*>::retain*", "redb::table::Table::<*>::pop_*", "redb::table::Table::<*>::extract*",
               "redb::transactions::WriteTransaction::delete_table", "redb::transactions::WriteTransaction::delete_multimap_table", "redb::table::Table::<*>::insert_reserve"]


def memory_writes(ctx, body, self_leaf):
    """Blocks of `body` that mutate the store state reachable from `self`."""
    out = []
    body.defs()
    for b in sorted(body.reachable_from([0])):
        t = body.blocks[b]["t"]
        if t["k"] == "call" and "f" in t:
            tl = std_tail(t["f"])
            is_mut = (tl in MUT_TAILS) or call_matches(t, LOCAL_MUT)
            if not is_mut and tl not in NONMUT_TAILS:
                # generic: a `&mut` into self handed to an unknown callee
                for a in t["args"]:
                    pl = a.get("mv") or a.get("cp")
                    if pl and not pl.get("p") and pl["l"] in body.mutref:
                        base, proj, _ = body.mutref[pl["l"]]
                        e = body.expr_place(base, proj)
                        if has_leaf(ctx.leaves(e), self_leaf) and tl is None and not callee_of(t).startswith(("tracing", "core::fmt", "alloc::fmt")):
                            is_mut = True
            if is_mut:
                e = call_expr(body, b)
                if e[3] and has_leaf(ctx.leaves(e[3][0]), self_leaf):
                    out.append(b)
        for i, s in enumerate(body.stmts(b)):
            d = s["d"]
            if d.get("p") and "*" in d["p"]:
                e = body.expr_place(d["l"], ())
                if has_leaf(ctx.leaves(e), self_leaf):
                    out.append(b)
    return sorted(set(out))


def redb_write_sites(ctx, crates=("lumina_node",)):
    """[(body, block)] of every redb table write / table deletion in the crate."""
    out = []
    for c in crates:
        for p in ctx.facts.crates[c].order:
            if not p.startswith("lumina_node::store::") and "redb" not in p:
                pass
            b = ctx.fn(p)
            for blk in b.call_sites(REDB_WRITES):
                out.append((b, blk))
    return out


def tx_closure(ctx, method, which="write_tx"):
    """Body of the closure a RedbStore method hands to write_tx / read_tx."""
    for p in ctx.facts.family(RB + "RedbStore::" + method):
        b = ctx.fn(p)
        for blk in b.call_sites([RB + "RedbStore::" + which]):
            e = call_expr(b, blk)
            for a in e[3]:
                if a[0] == "closure":
                    return ctx.fn(a[1])
    return None


def tx_call_count(ctx, method, which="write_tx"):
    n = 0
    for p in ctx.facts.family(RB + "RedbStore::" + method):
        b = ctx.fn(p)
        n += len(b.call_sites([RB + "RedbStore::" + which]))
    return n
