"""C20 — Failed store operations leave the store unchanged."""
from engine.rules import Has, call_expr, call_result_honoured, edge_call_truth, result_ok_edge, exit_sites, never_after, require_guard, root_fn
from engine.mir import call_matches, callee_of, has_leaf
from rules.storelib import IM, RB, memory_writes, redb_write_sites

CLAUSE = (
    "In-memory store: in each mutating operation (insert, remove_height, update_sampling_metadata, mark_as_sampled) "
    "no rejecting exit is reachable after the first write to the store's state on any CFG path (writes = std "
    "collection mutators / BlockRanges mutators / unknown callees handed a &mut into self / field assignments). "
    "Redb store: every table write or table deletion in the crate lies in a closure handed to write_tx (or in a "
    "helper only called from such closures); write_tx commits only on the is_ok edge of the closure's result, aborts "
    "on the other edge, propagates a commit failure and returns the closure's result."
)
NOT_DECIDED = "redb's own abort semantics; panics (expect) are outside the clause; the IndexedDb backend is not compiled here."
ENGINES = "O (never_after), W (who-may-write), G (commit only on success)"
ASSUMPTIONS = ["redb WriteTransaction::abort discards all writes of the transaction"]
OPS = ["insert", "remove_height", "update_sampling_metadata", "mark_as_sampled"]


def run(ctx):
    for op in OPS:
        f = ctx.anchor(IM + "InMemoryStoreInner::" + op)
        if not f:
            continue
        self_leaf = "self" if f.captures is not None else "a1"
        w = memory_writes(ctx, f, self_leaf)
        ctx.check(len(w) >= 1, "C20.mem.writes", f.path, "%s: write sites found: %d" % (op, len(w)), key="C20.mem.writes|" + op)
        rej = [x["block"] for x in exit_sites(f) if x["kind"] == "reject"]
        ctx.check(len(rej) >= 1, "C20.mem.rejects", f.path, "%s: rejecting exits found: %d" % (op, len(rej)), key="C20.mem.rejects|" + op)
        if w and rej:
            exprs = {x["block"]: x["expr"] for x in exit_sites(f)}

            def desc(bb):
                from engine.mir import walk
                names = []
                for n in walk(exprs[bb]):
                    if n[0] == "agg" and n[2] and n[1] not in ("core::result::Result", "core::option::Option"):
                        names.append(n[2])
                    if n[0] == "call" and n[1].startswith("lumina_node::"):
                        names.append(n[1].split("::")[-1])
                return "/".join(sorted(set(names))[:3]) or "error"

            ok = never_after(ctx, f, w, rej, "C20.mem.atomic", "%s: a rejecting exit is reachable after the store was already mutated" % op, per_pair=True, b_desc=desc)
    # outer in-memory insert: conversion failure precedes any lock/write; nothing can fail after the inner insert
    o = ctx.anchor(IM + "InMemoryStore::insert")
    if o:
        ins = o.call_sites([IM + "InMemoryStoreInner::insert"])
        ctx.check(len(ins) == 1, "C20.mem.outer", o.path, "exactly one inner insert", key="C20.mem.outer")
    # redb: who may write
    sites = redb_write_sites(ctx)
    ctx.floor("C20.redb.write-sites", "redb table write sites", len(sites), 12)
    # closures handed to write_tx
    tx_closures = set()
    helper_ok = {}
    for p in ctx.facts.crates["lumina_node"].order:
        if not p.startswith(RB):
            continue
        b = ctx.fn(p)
        for blk in b.call_sites([RB + "RedbStore::write_tx"]):
            e = call_expr(b, blk)
            for a in e[3]:
                if a[0] == "closure":
                    tx_closures.add(a[1])
    ctx.floor("C20.redb.tx-closures", "closures handed to write_tx", len(tx_closures), 5)

    def in_tx(path, depth=0):
        """path is a write_tx closure (or nested in one), or a helper whose every caller is."""
        r = path
        while True:
            if r in tx_closures:
                return True
            nr = r.rsplit("::{closure#", 1)[0] if "::{closure#" in r else None
            if nr is None:
                break
            r = nr
        if depth > 3:
            return False
        fn = root_fn(path)
        callers = []
        for p in ctx.facts.crates["lumina_node"].order:
            b = ctx.fn(p)
            if b.call_sites([fn]):
                callers.append(p)
        return bool(callers) and all(in_tx(c, depth + 1) for c in callers if root_fn(c) != fn)

    for b, blk in sites:
        ctx.check(in_tx(b.path), "C20.redb.in-tx", b.path, "table write lies inside a write_tx transaction closure", site=b.loc(blk), key="C20.redb.in-tx|" + root_fn(b.path))
    # write_tx itself
    wt = None
    for p in ctx.facts.family(RB + "RedbStore::write_tx"):
        b = ctx.fn(p)
        if b.call_sites(["*WriteTransaction::commit"]):
            wt = b
    ctx.check(wt is not None, "C20.redb.write_tx", RB + "RedbStore::write_tx", "transaction body found", key="C20.redb.write_tx")
    if wt is not None:
        ctx.functions.add(wt.path)
        com = wt.call_sites(["*WriteTransaction::commit"])
        ab = wt.call_sites(["*WriteTransaction::abort"])
        ok = len(com) == 1 and len(ab) == 1
        pol = None
        if ok:
            conds = [(s, lab) for s, lab, d in wt.edge_conditions(com[0])]
            pol = [result_ok_edge(ctx, wt, s, lab) for s, lab in conds if has_leaf(ctx.leaves(wt.switch_discr_expr(s)), "call:*FnOnce::call_once")]
            conds2 = [(s, lab) for s, lab, d in wt.edge_conditions(ab[0])]
            pol2 = [result_ok_edge(ctx, wt, s, lab) for s, lab in conds2 if has_leaf(ctx.leaves(wt.switch_discr_expr(s)), "call:*FnOnce::call_once")]
            ok = pol == [True] and pol2 == [False]
        ctx.check(ok, "C20.redb.commit-on-ok", wt.path, "commit only on the Ok edge of the closure's result, abort on the other", site=wt.loc(com[0]) if com else None, key="C20.redb.commit-on-ok")
        for c in com:
            call_result_honoured(ctx, wt, c, "C20.redb.commit-checked", "?tx.commit()")
        ex = [x for x in exit_sites(wt) if x["kind"] in ("accept", "may")]
        ok = bool(ex) and all(has_leaf(ctx.leaves(x["expr"]), "call:*FnOnce::call_once") for x in ex)
        ctx.check(ok, "C20.redb.returns-res", wt.path, "write_tx returns the closure's own result", key="C20.redb.returns-res")
