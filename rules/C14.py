"""C14 — Namespaces are validated, ordered and round-trip."""
from engine.rules import Cmp, Direct, Has, call_sites_with, exit_sites, require_guard, return_leaves, walk
from engine.mir import has_all, has_leaf

N = "celestia_types::nmt::Namespace::"
CLAUSE = (
    "Decides the validation skeleton: Namespace::from_raw accepts only 29 bytes and delegates to new(bytes[0], "
    "bytes[1..]); new dispatches 0 -> new_v0, 255 -> new_v255 and rejects every other version; new_v0 accepts only "
    "a 28-byte id or an at-most-10-byte suffix and rejects a non-zero prefix; new_v255 accepts only 28 bytes whose "
    "27-byte prefix is all 0xff; is_reserved is exactly `<= MAX_PRIMARY_RESERVED || >= MIN_SECONDARY_RESERVED`; "
    "Ord/PartialOrd/PartialEq/Eq for Namespace are the derived impls (lexicographic over the byte array) and the "
    "unchecked constructor stays crate-private."
)
NOT_DECIDED = "Byte/serde/version-0-shorthand round-trips (value-level)."
ENGINES = "G (must-check), S (version table), W (derived impls, visibility)"
ASSUMPTIONS = ["nmt_rs::NamespaceId derives its ordering from the inner byte array"]


def run(ctx):
    f = ctx.anchor(N + "from_raw")
    if f:
        from engine.rules import AnyOf
        require_guard(ctx, f, AnyOf(Cmp(["len:a1"], ["const:celestia_types::nmt::NS_SIZE"], pass_op="Eq"),
                                    # the same check made by converting the slice into a fixed [u8; NS_SIZE] array
                                    Direct(["*TryInto*::try_into", "*TryFrom*::try_from"], ["a1"]),
                                    name="bytes.len() == NS_SIZE"), "C14.from_raw.len")
        ex = [x for x in exit_sites(f) if x["kind"] in ("accept", "may")]
        ctx.check(bool(ex) and all(has_all(ctx.leaves(x["expr"]), ["call:" + N + "new", "a1"]) for x in ex), "C14.from_raw.delegates", f.path, "result comes from Namespace::new(version byte, id bytes)", key="C14.from_raw.delegates")
    n = ctx.anchor(N + "new")
    if n:
        sw = [b for b in sorted(n.reachable_from([0])) if n.blocks[b]["t"]["k"] == "switch" and has_leaf(ctx.leaves(n.switch_discr_expr(b)), "a1")]
        table = {}
        if sw:
            t = n.blocks[sw[0]]["t"]
            for d, lab in n.out_edges(sw[0]):
                reg = n.reachable_from([d])
                calls = set()
                for b in reg:
                    tt = n.blocks[b]["t"]
                    if tt["k"] == "call" and (tt.get("rf") or "").startswith(N):
                        calls.add(tt["rf"].split("::")[-1])
                table[lab] = calls
        ok = table.get(0) == {"new_v0"} and table.get(255) == {"new_v255"} and table.get("otherwise") == set() and all(v == set() for k, v in table.items() if k not in (0, 255))
        ctx.check(ok, "C14.new.table", n.path, "version table 0 -> new_v0, 255 -> new_v255, other -> reject (found %s)" % {k: sorted(v) for k, v in table.items()}, key="C14.new.table")
        rej = [x for x in exit_sites(n) if x["kind"] == "reject"]
        ctx.check(len(rej) >= 1, "C14.new.reject", n.path, "unsupported versions are rejected", key="C14.new.reject")
    v0 = ctx.anchor(N + "new_v0")
    if v0:
        require_guard(ctx, v0, Has("len:a1", name="id length classified (28 / <=10 / reject)"), "C14.v0.len")
        require_guard(ctx, v0, Has(["call:*Iterator::any", "call:*Iterator::all"], "a1", name="non-zero prefix rejected"), "C14.v0.prefix")
        lits = set()
        for b in sorted(v0.reachable_from([0])):
            if v0.blocks[b]["t"]["k"] == "switch":
                lits |= {l for l in ctx.leaves(v0.switch_discr_expr(b)) if l.startswith(("const:", "lit:"))}
                lits |= {"label:%s" % lab for d, lab in v0.out_edges(b) if has_leaf(ctx.leaves(v0.switch_discr_expr(b)), "len:a1")}
        ctx.check("label:28" in lits and has_leaf(lits, ["const:celestia_types::nmt::NS_ID_V0_SIZE", "lit:10"]), "C14.v0.sizes", v0.path, "accepted lengths are 28 and <= NS_ID_V0_SIZE", key="C14.v0.sizes")
    v255 = ctx.anchor(N + "new_v255")
    if v255:
        require_guard(ctx, v255, Cmp(["len:a1"], ["const:celestia_types::nmt::NS_ID_SIZE"], pass_op="Eq", name="id.len() == NS_ID_SIZE"), "C14.v255.len")
        require_guard(ctx, v255, Has("call:*Iterator::all", "a1", name="prefix must be all 0xff"), "C14.v255.prefix")
    r = ctx.anchor(N + "is_reserved")
    if r:
        cmps = []
        for x in exit_sites(r):
            for nn in walk(x["expr"]):
                if nn[0] == "call" and nn[2].endswith(("PartialOrd::le", "PartialOrd::ge", "PartialOrd::lt", "PartialOrd::gt")):
                    cmps.append((nn[2].split("::")[-1], ctx.leaves(nn)))
        for b in sorted(r.reachable_from([0])):
            if r.blocks[b]["t"]["k"] == "switch":
                for nn in walk(r.switch_discr_expr(b)):
                    if nn[0] == "call" and nn[2].endswith(("PartialOrd::le", "PartialOrd::ge", "PartialOrd::lt", "PartialOrd::gt")):
                        cmps.append((nn[2].split("::")[-1], ctx.leaves(nn)))
        ok = any(op == "le" and has_leaf(ls, "const:*MAX_PRIMARY_RESERVED") for op, ls in cmps) and any(op == "ge" and has_leaf(ls, "const:*MIN_SECONDARY_RESERVED") for op, ls in cmps)
        ctx.check(ok, "C14.reserved", r.path, "is_reserved = self <= MAX_PRIMARY_RESERVED || self >= MIN_SECONDARY_RESERVED", key="C14.reserved")
    der = {i["trait"]: i for i in ctx.facts.impls("celestia_types") if i["self_ty"] == "celestia_types::nmt::Namespace" and i.get("trait")}
    for tr in ("core::cmp::Ord", "core::cmp::PartialOrd", "core::cmp::PartialEq", "core::cmp::Eq"):
        ctx.check(tr in der and der[tr]["derived"], "C14.derived", "celestia_types::nmt::Namespace", "%s for Namespace is the derived impl" % tr.split("::")[-1], key="C14.derived|" + tr)
    fm = ctx.facts.fn_meta(N + "new_unchecked")
    ctx.check(fm is not None and fm["vis"] != "pub", "C14.unchecked-private", N + "new_unchecked", "new_unchecked is not public (%s)" % (fm["vis"] if fm else None), key="C14.unchecked-private")
    adt = ctx.facts.adt("celestia_types::nmt::Namespace")
    ctx.check(adt is not None and all(fl[2] != "pub" for v in adt["variants"] for fl in v["fields"]), "C14.field-private", "celestia_types::nmt::Namespace", "inner id is private", key="C14.field-private")
