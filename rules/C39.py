"""C39 — Peer tracker counts match peer states."""
from engine.rules import Direct, Has, call_expr, call_sites_with, exit_sites, require_guard, root_fn
from engine.mir import has_all, has_leaf, norm_proj, std_tail, walk

P = "lumina_node::peer_tracker::"
T = P + "PeerTracker::"
CLAUSE = (
    "The published statistics are a function of (connected, trusted, full, archival) per tracked peer, so: every "
    "assignment to Peer.trusted / archival / node_kind inside a PeerTracker method is followed on every path to the "
    "normal exit by recount_peer_tracker_info; every key-set change of Peer.connections (insert / remove / retain / "
    "clear) is followed on every path by the recount or by a branch on is_connected (one of whose arms recounts); "
    "protect_counter is written at exactly two sites, +1 on the true edge of protected.insert(tag) and -1 on the true "
    "edge of protected.remove(&tag); the gc retain predicate can return anything but `true` only past the false edges "
    "of is_connected() and is_protected(); entries leave PeerTracker.peers only in gc; the recount itself counts "
    "trusted/full/archival only inside the is_connected arm."
)
NOT_DECIDED = "Equality of the counts over event histories (needs the behavioural model)."
ENGINES = "O (until-exit), S (counter gating), G (retain predicate), W (who removes peers)"
ASSUMPTIONS = []
FIELDS = ("trusted", "archival", "node_kind")


def methods(ctx):
    return [p for p in ctx.facts.paths("lumina_node") if p.startswith(T) and "::{" not in p]


def run(ctx):
    n_assign = 0
    n_conn = 0
    for p in methods(ctx):
        b = ctx.fn(p)
        rec = b.call_sites([T + "recount_peer_tracker_info"])
        rets = [x for x in range(b.n) if not b.blocks[x]["cl"] and b.blocks[x]["t"]["k"] == "return"]
        for blk in sorted(b.reachable_from([0])):
            for i, st in enumerate(b.stmts(blk)):
                pr = norm_proj(st["d"].get("p"))
                if pr and pr[-1] in FIELDS and "*" in (st["d"].get("p") or []):
                    base = ctx.leaves(b.expr_place(st["d"]["l"], (), 0, blk))
                    if not has_leaf(base, "a1.peers"):
                        continue
                    n_assign += 1
                    ctx.functions.add(b.path)
                    path = b.path_to([blk], set(rets), removed_blocks=set(rec) - {blk}) if blk not in rec else None
                    ctx.check(path is None, "C39.recount-after-flag", b.path, "Peer.%s changed -> recount before returning" % pr[-1], site=b.loc(blk, i), key="C39.recount-after-flag|%s|%s" % (root_fn(b.path), pr[-1]), path=b.render_path(path) if path else None)
        for blk in call_sites_with(ctx, b, ["*HashMap*::insert", "*HashMap*::remove", "*HashMap*::retain", "*HashMap*::clear", "*HashMap*::drain"]):
            e = call_expr(b, blk)
            if not e[3] or not has_leaf(ctx.leaves(e[3][0]), "field:connections") and not any(x.endswith(".connections") for x in ctx.leaves(e[3][0])):
                continue
            n_conn += 1
            ctx.functions.add(b.path)
            deciders = set(rec)
            for s in sorted(b.reachable_from([blk])):
                if b.blocks[s]["t"]["k"] == "switch" and has_leaf(ctx.leaves(b.switch_discr_expr(s)), "call:" + P + "Peer::is_connected"):
                    deciders.add(s)
            path = b.path_to([d for d, _ in b.out_edges(blk)], set(rets), removed_blocks=deciders)
            ctx.check(path is None, "C39.recount-after-connection", b.path, "connection set changed -> recount, or a decision on is_connected, before returning", site=b.loc(blk), key="C39.recount-after-connection|" + root_fn(b.path))
            if not rec:
                ctx.violate("C39.recount-after-connection", b.path, "method changes connections but never recounts", key="C39.recount-missing|" + root_fn(b.path))
    ctx.floor("C39.flag-writes", "writes to Peer.trusted/archival/node_kind in PeerTracker", n_assign, 5)
    ctx.floor("C39.connection-writes", "key-set changes of Peer.connections", n_conn, 2)
    # protect counter gating
    writes = []
    for p in methods(ctx):
        b = ctx.fn(p)
        for blk in sorted(b.reachable_from([0])):
            for i, st in enumerate(b.stmts(blk)):
                if "*" in (st["d"].get("p") or []) and not norm_proj(st["d"].get("p")):
                    base = ctx.leaves(b.expr_place(st["d"]["l"], (), 0, blk))
                    if has_leaf(base, "a1.protect_counter"):
                        e = b.expr_rvalue(st["r"], (), blk, 0)
                        op = next((n[1][:3] for n in walk(e) if n[0] == "bin" and n[1][:3] in ("Add", "Sub")), None)
                        writes.append((b, blk, i, op))
    ctx.check(len(writes) == 2 and {w[3] for w in writes} == {"Add", "Sub"}, "C39.protect.sites", T + "protect", "protect_counter is written at exactly one +1 and one -1 site (found %s)" % [w[3] for w in writes], key="C39.protect.sites")
    for b, blk, i, op in writes:
        want = "*HashSet*::insert" if op == "Add" else "*HashSet*::remove"
        conds = b.edge_conditions(blk)
        ok = False
        for s, lab, d in conds:
            e = b.switch_discr_expr(s)
            from engine.rules import edge_truth, bool_nodes
            for node, neg in bool_nodes(e):
                if node[0] == "call" and any(__import__("fnmatch").fnmatchcase(node[1], want) for _ in [0]) and has_leaf(ctx.leaves(node), "field:protected") | any(x.endswith(".protected") for x in ctx.leaves(node)):
                    tr = edge_truth(b.blocks[s]["t"], lab)
                    if tr is not None and (tr != neg):
                        ok = True
        ctx.check(ok, "C39.protect.gated", b.path, "protect_counter %s1 only when the tag was actually %s the peer's set" % ("+" if op == "Add" else "-", "added to" if op == "Add" else "removed from"), site=b.loc(blk, i), key="C39.protect.gated|" + str(op))
    # gc
    g = ctx.anchor(T + "gc", main=False)
    if g:
        cl = None
        for p in ctx.facts.family(g.path)[1:]:
            cb = ctx.fn(p)
            if cb.call_sites([P + "Peer::is_connected"]):
                cl = cb
        ctx.check(cl is not None, "C39.gc.predicate", g.path, "retain predicate found", key="C39.gc.predicate")
        if cl is not None:
            ctx.functions.add(cl.path)
            non_true = [x["block"] for x in exit_sites(cl) if x["kind"] != "accept"]
            if non_true:
                require_guard(ctx, cl, Direct([P + "Peer::is_connected"]), "C39.gc.keeps-connected", targets=non_true, what="a connected peer is always retained")
                require_guard(ctx, cl, Direct([P + "Peer::is_protected"]), "C39.gc.keeps-protected", targets=non_true, what="a protected peer is always retained")
    rem = []
    for p in methods(ctx):
        b = ctx.fn(p)
        for blk in call_sites_with(ctx, b, ["*HashMap*::remove", "*HashMap*::retain", "*HashMap*::clear", "*HashMap*::drain", "*HashMap*::extract_if", "*OccupiedEntry*::remove*"]):
            e = call_expr(b, blk)
            ls = ctx.leaves(e[3][0]) if e[3] else set()
            if has_leaf(ls, "a1.peers") and not has_leaf(ls, "field:connections") and not any(x.endswith((".connections", ".protected")) for x in ls) and not has_leaf(ls, "field:protected"):
                rem.append(root_fn(b.path))
    ctx.check(set(rem) == {T + "gc"}, "C39.gc.only-remover", T + "gc", "peers are forgotten only by gc (found %s)" % sorted(set(rem)), key="C39.gc.only-remover")
    # recount shape
    r = None
    for p in ctx.facts.family(T + "recount_peer_tracker_info")[1:]:
        cb = ctx.fn(p)
        if cb.call_sites([P + "Peer::is_trusted"]):
            r = cb
    ctx.check(r is not None, "C39.recount.body", T + "recount_peer_tracker_info", "recount closure found", key="C39.recount.body")
    if r is not None:
        ctx.functions.add(r.path)
        for meth in ("is_trusted", "is_full", "is_archival"):
            sites = r.call_sites([P + "Peer::" + meth])
            ok = bool(sites)
            for s in sites:
                conds = r.edge_conditions(s)
                ok = ok and any(has_leaf(ctx.leaves(r.switch_discr_expr(sw)), "call:" + P + "Peer::is_connected") for sw, lab, d in conds)
            ctx.check(ok, "C39.recount.connected-only", r.path, "%s is counted only for connected peers" % meth, key="C39.recount.connected-only|" + meth)
