"""C11 — Blob share encoding round-trips and is sized correctly."""
from engine.rules import Cmp, Has, call_expr, call_sites_with, const_value, exit_sites, require_guard, return_leaves
from engine.mir import has_all, has_leaf

T = "celestia_types::"
G = T + "consts::appconsts::global_consts::"
CLAUSE = (
    "Decides the structural part of 'the reported share count equals the number of shares produced': the number of "
    "shares to_shares produces differs with signer presence (the first share of a share-version-1 blob holds "
    "SIGNER_SIZE = 20 fewer payload bytes), so Blob::shares_len must depend on self.signer / self.share_version; "
    "shares_len and the reconstruction-side shares_needed_for_blob use the same capacity constants "
    "(FIRST_SPARSE_SHARE_CONTENT_SIZE = 478, CONTINUATION_SPARSE_SHARE_CONTENT_SIZE = 482); Blob::reconstruct rejects "
    "reserved namespaces, a first share without sequence start, namespace / share-version changes inside a blob and "
    "an unexpected sequence start, and sizes its loop; Blob::reconstruct_all classifies the shares it skips with Namespace::is_reserved; reconstruct sizes its loop with shares_needed_for_blob(sequence length, signer presence)."
)
NOT_DECIDED = "The round-trip equalities themselves and the exact share count (value-level)."
ENGINES = "D (must-depend), K (constants), G (reject guards)"
ASSUMPTIONS = []


def run(ctx):
    f = ctx.anchor(T + "blob::Blob::shares_len")
    if f:
        rl = return_leaves(ctx, f, kinds=("accept", "may"))
        sw = set()
        for b in sorted(f.reachable_from([0])):
            if f.blocks[b]["t"]["k"] == "switch":
                sw |= ctx.leaves(f.switch_discr_expr(b))
        allv = rl | sw
        ctx.check(has_leaf(allv, "a1.data"), "C11.shares_len.data", f.path, "share count depends on the data length", key="C11.shares_len.data")
        ctx.check(has_leaf(allv, ["a1.signer", "a1.share_version"]), "C11.shares_len.signer", f.path,
                  "share count depends on signer presence / share version (first-share capacity shrinks by SIGNER_SIZE for signed blobs)", key="C11.shares_len.signer")
        ctx.check(has_all(allv, ["const:" + G + "FIRST_SPARSE_SHARE_CONTENT_SIZE", "const:" + G + "CONTINUATION_SPARSE_SHARE_CONTENT_SIZE"]) or has_leaf(allv, "call:*shares_needed_for_blob"), "C11.shares_len.capacities", f.path, "uses the sparse-share capacity constants", key="C11.shares_len.capacities")
    for name, val in (("FIRST_SPARSE_SHARE_CONTENT_SIZE", 478), ("CONTINUATION_SPARSE_SHARE_CONTENT_SIZE", 482), ("SIGNER_SIZE", 20), ("SHARE_SIZE", 512)):
        ctx.check(const_value(ctx, G + name) == val, "C11.K." + name, G + name, "%s = %d" % (name, val), key="C11.K." + name)
    n = None
    for p in ctx.facts.paths("celestia_types"):
        if p.endswith("::shares_needed_for_blob"):
            n = ctx.anchor(p)
    ctx.check(n is not None, "C11.needed.exists", T + "blob", "shares_needed_for_blob found", key="C11.needed.exists")
    if n:
        rl = return_leaves(ctx, n) | {l for b in sorted(n.reachable_from([0])) if n.blocks[b]["t"]["k"] == "switch" for l in ctx.leaves(n.switch_discr_expr(b))}
        ctx.check(has_all(rl, ["a1", "a2", "const:" + G + "SIGNER_SIZE"]), "C11.needed.signer", n.path, "reconstruction-side count depends on length, signer presence and SIGNER_SIZE", key="C11.needed.signer")
        # every answer - including the "one share is enough" early answers - is decided with the
        # signer-adjusted first-share capacity: the value returned or one of the conditions that
        # select that return depends on SIGNER_SIZE / the signer flag
        from engine.rules import exit_sites as _exits
        for x in _exits(n):
            ls = set(ctx.leaves(x["expr"]))
            for sw, lab, _d in n.edge_conditions(x["block"]):
                ls |= ctx.leaves(n.switch_discr_expr(sw))
            ctx.check(has_leaf(ls, "const:" + G + "SIGNER_SIZE"), "C11.needed.every-exit-signer", n.path,
                      "the share count returned at %s is decided with the signer-adjusted first-share capacity" % x["loc"], site=x["loc"],
                      key="C11.needed.every-exit-signer|" + ("const" if not has_leaf(ctx.leaves(x["expr"]), "a1") else "computed"))
    # reconstruct_all skips reserved-namespace shares: the classification applied to each share (in
    # the function or one of its closures) is Namespace::is_reserved, whose definition C14.reserved
    # decides - a re-derived range/ordering test is not accepted as the same classification
    ra = [q for q in ctx.facts.paths("celestia_types") if q.startswith(T + "blob::Blob::reconstruct_all")]
    ctx.check(bool(ra), "C11.reconstruct_all.exists", T + "blob", "Blob::reconstruct_all found", key="C11.reconstruct_all.exists")
    if ra:
        hit = False
        for q in ra:
            fb = ctx.anchor(q)
            if fb and call_sites_with(ctx, fb, ["*Namespace::is_reserved"]):
                hit = True
        ctx.check(hit, "C11.reconstruct_all.reserved-filter", T + "blob::Blob::reconstruct_all",
                  "shares interleaved with the blobs are skipped by Namespace::is_reserved (the classification C14.reserved decides)", key="C11.reconstruct_all.reserved-filter")
    r = ctx.anchor(T + "blob::Blob::reconstruct")
    if r:
        require_guard(ctx, r, Has("call:*Namespace::is_reserved", name="reserved namespace rejected"), "C11.reconstruct.reserved")
        require_guard(ctx, r, Has("call:*Share::sequence_length", name="first share must start a sequence"), "C11.reconstruct.seq-start")
        sn = call_sites_with(ctx, r, ["*shares_needed_for_blob"])
        ok = len(sn) == 1 and has_all(ctx.leaves(call_expr(r, sn[0])), ["call:*Share::sequence_length", "call:*Share::signer"])
        ctx.check(ok, "C11.reconstruct.needed", r.path, "loop bound = shares_needed_for_blob(sequence length, signer.is_some())", key="C11.reconstruct.needed")
        # inside the continuation loop: namespace, version, no new sequence start
        ns = [b for b in sorted(r.reachable_from([0])) if r.blocks[b]["t"]["k"] == "switch"]
        def has_guard(pats):
            from engine.rules import Guards
            g = Guards(ctx, r)
            return any(has_all(ctx.leaves(r.switch_discr_expr(b)), pats) for b, fl, ps in g.switches)
        ctx.check(has_guard(["call:*Share::namespace", "call:*PartialEq::ne"]) or has_guard(["call:*Share::namespace"]), "C11.reconstruct.namespace", r.path, "a continuation share of another namespace is rejected", key="C11.reconstruct.namespace")
        ctx.check(has_guard(["call:*InfoByte::version"]), "C11.reconstruct.version", r.path, "a continuation share of another share version is rejected", key="C11.reconstruct.version")
