"""C15 — Shwap identifiers and CIDs are bijective over valid ids."""
from engine.rules import Cmp, Has, call_sites_with, const_value, exit_sites, require_guard, return_leaves
from engine.mir import has_all, has_leaf, std_tail

T = "celestia_types::"
CLAUSE = (
    "Decides the reject clauses and the layout agreement: every id decoder (EdsId, RowId, SampleId, "
    "RowNamespaceDataId, NamespaceDataId) accepts only a buffer of exactly its id size and `?`-checks its nested "
    "decoders (EdsId::new rejects height 0, Namespace::from_raw rejects invalid namespaces); every "
    "TryFrom<CidGeneric> accepts only past the codec, multihash-length and multihash-code comparisons and returns the "
    "decoder's result; each encode/decode pair uses the same ordered field layout (u64 height | u16 index | u16 "
    "index | 29-byte namespace) and the id-size constants equal the sum of their parts (8/10/12/39/37)."
)
NOT_DECIDED = "Round-trip value equality."
ENGINES = "G (must-check), S (encoder/decoder layout agreement), K (sizes, codecs)"
ASSUMPTIONS = ["bytes::Buf::get_u64/get_u16 and BufMut::put_u64/put_u16 are big-endian inverses"]
IDS = {
    "eds::EdsId": ("eds::EDS_ID_SIZE", 8, None),
    "row::RowId": ("row::ROW_ID_SIZE", 10, ("row::ROW_ID_CODEC", "row::ROW_ID_MULTIHASH_CODE")),
    "sample::SampleId": ("sample::SAMPLE_ID_SIZE", 12, ("sample::SAMPLE_ID_CODEC", "sample::SAMPLE_ID_MULTIHASH_CODE")),
    "row_namespace_data::RowNamespaceDataId": ("row_namespace_data::ROW_NAMESPACE_DATA_ID_SIZE", 39, ("row_namespace_data::ROW_NAMESPACE_DATA_CODEC", "row_namespace_data::ROW_NAMESPACE_DATA_ID_MULTIHASH_CODE")),
    "namespace_data::NamespaceDataId": ("namespace_data::NAMESPACE_DATA_ID_SIZE", 37, None),
}
WIDTH = {"get_u64": 8, "put_u64": 8, "get_u16": 2, "put_u16": 2}


def layout(ctx, body, depth=0):
    """Ordered field widths an encoder/decoder touches, following nested id codecs."""
    out = []
    for b in sorted(body.reachable_from([0])):
        t = body.blocks[b]["t"]
        if t["k"] != "call" or "f" not in t:
            continue
        name = (t.get("rf") or t["f"])
        tail = name.rsplit("::", 1)[-1]
        if tail in WIDTH and "bytes::buf" in t["f"]:
            out.append((b, WIDTH[tail]))
        elif name.startswith(T) and name.endswith(("Id::decode", "Id::encode")) and depth < 3 and name != body.path:
            cb = ctx.fn(name)
            if cb is not None:
                out.append((b, layout(ctx, cb, depth + 1)))
        elif name.endswith(("Namespace::from_raw", "Namespace::as_bytes")):
            out.append((b, 29))
    # order by dominance (straight-line code): sort by block reachability order
    res = []
    def flat(x):
        if isinstance(x, list):
            for y in x:
                flat(y)
        else:
            res.append(x)
    order = sorted(out, key=lambda x: len(body.can_reach([x[0]])))
    for _, w in order:
        flat(w)
    return res


def run(ctx):
    for ty, (size_const, size, cid) in IDS.items():
        d = ctx.anchor(T + ty + "::decode", main=False)
        e = ctx.anchor(T + ty + "::encode", main=False)
        ctx.check(const_value(ctx, T + size_const) == size, "C15.K.size", T + size_const, "%s = %d" % (size_const, size), key="C15.K.size|" + ty)
        if d:
            require_guard(ctx, d, Cmp(["len:a1"], ["const:" + T + size_const], pass_op="Eq", name="buffer.len() == id size"), "C15.decode.len|" + ty.split("::")[-1])
            nested = [b for b in sorted(d.reachable_from([0])) if d.blocks[b]["t"]["k"] == "call" and (d.blocks[b]["t"].get("rf") or "").startswith(T) and (d.blocks[b]["t"]["rf"].endswith(("Id::decode", "Id::new", "Namespace::from_raw")))]
            from engine.rules import call_result_honoured
            for b in nested:
                ex = [x for x in exit_sites(d) if x["kind"] == "may" and x["block"] == b]
                if ex:
                    ctx.ok("C15.decode.nested", d.path, "nested decoder result returned", site=d.loc(b))
                else:
                    call_result_honoured(ctx, d, b, "C15.decode.nested", "nested decoder `?`-checked")
        if d and e:
            ld, le = layout(ctx, d), layout(ctx, e)
            ctx.check(ld == le and sum(ld) == size, "C15.layout", T + ty, "encode and decode use the same field layout %s summing to the id size %d (decode %s)" % (le, size, ld), key="C15.layout|" + ty)
        if cid:
            tf = ctx.anchor("<%s%s as core::convert::TryFrom<cid::cid::Cid<S>>>::try_from" % (T, ty), main=False)
            if tf:
                # a by-value impl may just delegate to the by-reference one
                ex = exit_sites(tf)
                if tf.n <= 4 and len(ex) == 1 and ex[0]["kind"] == "may" and ex[0]["expr"][0] == "call" and ctx.fn(ex[0]["expr"][1]) is not None:
                    tf = ctx.anchor(ex[0]["expr"][1], main=False)
                name = ty.split("::")[-1]
                require_guard(ctx, tf, Cmp(["call:*Cid*::codec", "a1"], ["const:" + T + cid[0]], pass_op="Eq", name="codec == id codec"), "C15.cid.codec|" + name)
                require_guard(ctx, tf, Cmp(["call:*Multihash*::size"], ["const:" + T + size_const], pass_op="Eq", name="multihash size == id size"), "C15.cid.size|" + name)
                require_guard(ctx, tf, Cmp(["call:*Multihash*::code"], ["const:" + T + cid[1]], pass_op="Eq", name="multihash code == id code"), "C15.cid.code|" + name)
                rl = return_leaves(ctx, tf)
                ctx.check(has_all(rl, ["call:" + T + ty + "::decode", "call:*Multihash*::digest"]), "C15.cid.decode", tf.path, "result is the id decoded from the multihash digest", key="C15.cid.decode|" + name)
    n = ctx.anchor(T + "eds::EdsId::new", main=False)
    if n:
        require_guard(ctx, n, Cmp(["a1"], ["lit:0"], pass_op="Ne", name="height != 0"), "C15.eds.zero-height")
    for nm, val in (("row::ROW_ID_CODEC", 0x7800), ("row::ROW_ID_MULTIHASH_CODE", 0x7801), ("sample::SAMPLE_ID_CODEC", 0x7810), ("sample::SAMPLE_ID_MULTIHASH_CODE", 0x7811), ("row_namespace_data::ROW_NAMESPACE_DATA_CODEC", 0x7820), ("row_namespace_data::ROW_NAMESPACE_DATA_ID_MULTIHASH_CODE", 0x7821)):
        ctx.check(const_value(ctx, T + nm) == val, "C15.K.code", T + nm, "%s = %#x" % (nm, val), key="C15.K.code|" + nm)
