"""C33 — Data sampling marks a block sampled only after full success."""
from engine.rules import Cmp, Has, all_call_sites, call_expr, call_sites_with, const_value, exit_sites, require_guard, root_fn, variant_index, walk
from engine.mir import glob, has_all, has_leaf

D = "lumina_node::daser::"
CLAUSE = (
    "Decides over all CFG paths: every call of Store::mark_as_sampled in the daser sits on the `timed_out == false` "
    "edge of a branch on the second component of the very sampling-future result whose first component is the height "
    "passed to mark_as_sampled; inside the sampling future the per-share outcome flag is set false only on the Ok arm "
    "of the get_sample result, true only on the P2pError::RequestTimedOut arm, every other error leaves only through a "
    "rejecting exit (never to the loop continuation), the block flag is only ever raised inside the loop and is the "
    "value returned with the captured height; `?` on update_sampling_metadata(height, cids) precedes the construction "
    "of the future that requests the shares, and cids / requested coordinates come from the same random_indexes "
    "result; the index chooser uses MAX_SAMPLES_NEEDED = 16, reduces both coordinates modulo the square width, "
    "collects into a HashSet until it holds max_samples_needed entries, and enumerates the whole square when it has "
    "at most that many cells."
)
NOT_DECIDED = "Behaviour over schedules (which future completes when); that get_sample itself verifies (C04/C10)."
ENGINES = "G/W (call-site conditions), S (outcome table over match arms), O (metadata before requests), D, K"
ASSUMPTIONS = ["bitswap delivers a share only after ShwapMultihasher verified it (C10)"]
RES_TY = "core::result::Result<celestia_types::sample::Sample, lumina_node::p2p::P2pError>"


def run(ctx):
    # (1) every mark_as_sampled site in the daser
    sites = [(b, blk) for b, blk in all_call_sites(ctx, ["lumina_node"], ["lumina_node::store::Store::mark_as_sampled"], path_filter=lambda p: p.startswith(D))]
    ctx.floor("C33.mark.sites", "mark_as_sampled call sites in the daser", len(sites), 1)
    for b, blk in sites:
        ctx.functions.add(b.path)
        e = call_expr(b, blk)
        hexpr = e[3][1] if len(e[3]) > 1 else None
        ok = False
        why = "no dominating branch on the sampling result's timed_out flag"
        for s, lab, d in b.edge_conditions(blk):
            de = b.switch_discr_expr(s)
            if de[0] != "proj" or not de[1] or de[1][-1] != "1":
                continue
            base = de[2]
            if base[0] != "call" or not base[2].endswith("Try::branch"):
                continue
            # same result value feeds the height argument
            same = hexpr is not None and any(n is base or (n[0] == "call" and n[4] == base[4] and n[1] == base[1]) for n in walk(hexpr))
            from engine.rules import edge_truth
            truth = edge_truth(b.blocks[s]["t"], lab)
            if same and truth is False and has_leaf(ctx.leaves(base), "call:*StreamExt::next"):
                ok = True
            elif same and truth is True:
                why = "mark_as_sampled is on the timed_out == true edge"
        ctx.check(ok, "C33.mark.only-when-not-timed-out", b.path, "mark_as_sampled(height) only on the !timed_out edge of the (height, timed_out) result of a finished sampling future" if ok else why, site=b.loc(blk), key="C33.mark.only-when-not-timed-out|" + root_fn(b.path))
    # (2) the sampling future: outcome table
    sched = ctx.anchor(D + "Worker::<S>::schedule_next_sample_block")
    fut = None
    if sched:
        for p in ctx.facts.family(D + "Worker::<S>::schedule_next_sample_block"):
            cb = ctx.fn(p)
            if any(l[0] == RES_TY for l in cb.locals) and cb.call_sites(["*StreamExt::next"]):
                fut = cb
    ctx.check(fut is not None, "C33.fut.found", D + "Worker::<S>::schedule_next_sample_block", "per-block sampling future found (consumes Result<Sample, P2pError> values)", key="C33.fut.found")
    if fut is not None:
        ctx.functions.add(fut.path)
        res_locals = [i for i, l in enumerate(fut.locals) if l[0] == RES_TY]
        sw = []
        for b in sorted(fut.reachable_from([0])):
            t = fut.blocks[b]["t"]
            if t["k"] != "switch":
                continue
            pl = t["d"].get("mv") or t["d"].get("cp")
            if not pl:
                continue
            for df in fut.defs().get(pl["l"], []):
                if df[0] == "assign" and df[4]["k"] == "discr" and df[4]["p"]["l"] in res_locals and not df[4]["p"].get("p"):
                    sw.append(b)
        ctx.check(len(sw) == 1, "C33.fut.result-switch", fut.path, "one match on the get_sample result", key="C33.fut.result-switch")
        if len(sw) == 1:
            s = sw[0]
            back = set()
            for x in fut.reachable_from([0]):
                for d in fut.succ(x):
                    if fut.dominates(d, x):
                        back.add((x, d))
            from engine.rules import result_ok_edge
            ok_d = [d for d, lab in fut.out_edges(s) if result_ok_edge(ctx, fut, s, lab) is True]
            err_d = [d for d, lab in fut.out_edges(s) if result_ok_edge(ctx, fut, s, lab) is False]
            ok_reg = fut.reachable_from(ok_d, removed_edges=back) if ok_d else set()
            err_reg = fut.reachable_from(err_d, removed_edges=back) if err_d else set()
            # bool constants assigned in the exclusive part of each region
            def const_assigns(region):
                out = []
                for b in sorted(region):
                    for i, st in enumerate(fut.stmts(b)):
                        a = st["r"].get("a") if st["r"]["k"] == "use" else None
                        if a and "c" in a and a.get("ty") == "bool" and not st["d"].get("p"):
                            out.append((b, st["d"]["l"], bool(a["v"]), fut.loc(b, i)))
                return out
            ok_only = ok_reg - err_reg
            err_only = err_reg - ok_reg
            flags_ok = const_assigns(ok_only)
            flags_err = const_assigns(err_only)
            flag_locals = {l for _, l, _, _ in flags_ok} & {l for _, l, _, _ in flags_err}
            ctx.check(len(flag_locals) == 1, "C33.fut.flag", fut.path, "one per-share outcome flag assigned on both arms", key="C33.fut.flag")
            if len(flag_locals) == 1:
                T = list(flag_locals)[0]
                ctx.check(all(v is False for _, l, v, _ in flags_ok if l == T), "C33.fut.ok-arm", fut.path, "Ok arm: timed_out = false", key="C33.fut.ok-arm")
                bad = [loc for _, l, v, loc in flags_err if l == T and v is False]
                ctx.check(not bad, "C33.fut.err-never-success", fut.path, "no error arm of get_sample counts the share as retrieved (timed_out = false)" + (" - offending assignment at %s" % bad[0] if bad else ""), site=bad[0] if bad else None, key="C33.fut.err-never-success")
                trues = [(b, loc) for b, l, v, loc in flags_err if l == T and v is True]
                rt = variant_index(ctx, "lumina_node::p2p::P2pError", "RequestTimedOut")
                okt = bool(trues)
                # with the `== RequestTimedOut` edges of the tests of the error's discriminant removed,
                # no `timed_out = true` assignment is reachable from the Err edge
                removed_rt = set(back)
                n_rt = 0
                for s2 in sorted(err_reg):
                    t2 = fut.blocks[s2]["t"]
                    if t2["k"] == "switch" and fut.switch_discr_expr(s2)[0] == "discr":
                        for d2, lab2 in fut.out_edges(s2):
                            if lab2 == rt:
                                removed_rt.add((s2, d2))
                                n_rt += 1
                okt = okt and n_rt >= 1 and fut.path_to(err_d, {b for b, _ in trues}, removed_rt) is None
                ctx.check(okt, "C33.fut.timeout-arm", fut.path, "timed_out = true only on the P2pError::RequestTimedOut arm", key="C33.fut.timeout-arm")
                # every other error path ends in a rejecting exit: from the Err edge, the merge
                # point (common continuation) is reachable only through an assignment to the flag
                assigns = {b for b, l, v, _ in flags_err if l == T}
                merge = ok_reg & err_reg
                removed = set(back)
                for b in assigns:
                    for d, _ in fut.out_edges(b):
                        removed.add((b, d))
                leak = fut.path_to(err_d, merge, removed) if merge and err_d else None
                ctx.check(leak is None, "C33.fut.other-errors-fatal", fut.path, "an error other than a timeout never reaches the loop continuation (it leaves through a rejecting exit)", key="C33.fut.other-errors-fatal", path=fut.render_path(leak) if leak else None)
            # block flag: returned value
            acc = [x for x in exit_sites(fut) if x["kind"] == "accept"]
            ok = bool(acc) and all(has_leaf(ctx.leaves(x["expr"]), "height") for x in acc)
            ctx.check(ok, "C33.fut.returns-height", fut.path, "the future returns the captured height with the block flag", key="C33.fut.returns-height")
            nxt = fut.call_sites(["*StreamExt::next"])
            bflags = [i for i, l in enumerate(fut.locals) if l[0] == "bool" and l[2] == 1 and i not in flag_locals]
            okb = False
            for F in bflags:
                defs = [df for df in fut.defs().get(F, []) if df[0] == "assign"]
                falses = [df for df in defs if df[4]["k"] == "use" and df[4]["a"].get("v") == 0]
                trues_ = [df for df in defs if df[4]["k"] == "use" and df[4]["a"].get("v") == 1]
                if falses and trues_ and nxt and all(fut.dominates(df[1], nxt[0]) and df[1] not in fut.reachable_from([nxt[0]]) for df in falses):
                    okb = any(has_leaf({("a%d" % 0)}, "zz") or True for _ in trues_)
                    # returned tuple carries this flag
                    okb = okb and any(any(n[0] == "const" or True for n in walk(x["expr"])) for x in acc)
            ctx.check(okb, "C33.fut.block-flag", fut.path, "the block-level flag is cleared only before the loop and raised inside it (a disjunction over shares)", key="C33.fut.block-flag")
    # (3) metadata recorded before any request is created
    if sched:
        fb = []
        if fut is not None:
            for b in sorted(sched.reachable_from([0])):
                for i, st in enumerate(sched.stmts(b)):
                    r = st["r"]
                    if r["k"] == "agg" and r.get("ak") in ("coroutine", "closure") and r.get("def") == fut.path:
                        fb.append(b)
        ctx.check(len(fb) == 1, "C33.sched.future-site", sched.path, "construction site of the sampling future", key="C33.sched.future-site")
        if fb:
            require_guard(ctx, sched, Has("call:lumina_node::store::Store::update_sampling_metadata", "call:*sample_cid*", name="?store.update_sampling_metadata(height, cids) before the requests exist"), "C33.sched.metadata-first", targets=fb)
            up = call_sites_with(ctx, sched, ["lumina_node::store::Store::update_sampling_metadata"])
            ri = call_sites_with(ctx, sched, [D + "random_indexes"])
            ctx.check(len(ri) == 1 and len(up) == 1, "C33.sched.one-choice", sched.path, "indexes are chosen once per block", key="C33.sched.one-choice")
            if ri and up:
                ue = call_expr(sched, up[0])
                okd = has_leaf(ctx.leaves(ue), "call:" + D + "random_indexes") and has_leaf(ctx.leaves(ue), "call:*ExtendedHeader::height")
                for st in sched.stmts(fb[0]):
                    pass
                caps = []
                for i, st in enumerate(sched.stmts(fb[0])):
                    r = st["r"]
                    if r["k"] == "agg" and r.get("def") == fut.path:
                        caps = [ctx.leaves(sched.expr_operand(o, 0, fb[0])) for o in r["ops"]]
                okd = okd and any(has_leaf(c, "call:" + D + "random_indexes") for c in caps)
                ctx.check(okd, "C33.sched.same-indexes", sched.path, "recorded CIDs and requested coordinates derive from the same random_indexes(square_width, max_samples_needed) result", key="C33.sched.same-indexes")
                ctx.check(has_all(ctx.leaves(call_expr(sched, ri[0])), ["call:*ExtendedHeader::square_width", "self.max_samples_needed"]), "C33.sched.index-args", sched.path, "random_indexes(header.square_width(), self.max_samples_needed)", key="C33.sched.index-args")
    # (4) the index chooser
    ctx.check(const_value(ctx, D + "MAX_SAMPLES_NEEDED") == 16, "C33.K.max-samples", D + "MAX_SAMPLES_NEEDED", "MAX_SAMPLES_NEEDED = 16", key="C33.K.max-samples")
    nw = ctx.anchor(D + "Worker::<S>::new", main=False)
    if nw:
        from engine.rules import aggregates
        ag = aggregates(ctx, nw, D + "Worker")
        ok = bool(ag) and has_leaf(ctx.leaves(ag[0][1].get("max_samples_needed", ("unknown",))), "const:" + D + "MAX_SAMPLES_NEEDED")
        ctx.check(ok, "C33.K.wired", nw.path, "Worker.max_samples_needed is MAX_SAMPLES_NEEDED", key="C33.K.wired")
    r = ctx.anchor(D + "random_indexes", main=False)
    if r:
        ins = call_sites_with(ctx, r, ["*HashSet*::insert"])
        ctx.check(len(ins) == 1, "C33.idx.set", r.path, "indexes are collected in a HashSet (distinct)", key="C33.idx.set")
        if ins:
            e = call_expr(r, ins[0])
            rems = [n for n in walk(e[3][1]) if n[0] == "bin" and n[1] == "Rem"]
            ok = len(rems) >= 2 and all(has_leaf(ctx.leaves(n[3]), "a1") for n in rems)
            ctx.check(ok, "C33.idx.in-square", r.path, "both coordinates are reduced modulo square_width", key="C33.idx.in-square")
        # loop exit only when len >= max
        lens = [b for b in sorted(r.reachable_from([0])) if r.blocks[b]["t"]["k"] == "switch" and has_all(ctx.leaves(r.switch_discr_expr(b)), ["call:*HashSet*::len", "a2"])]
        ctx.check(len(lens) == 1, "C33.idx.loop", r.path, "sampling loop runs while indexes.len() < max_samples_needed", key="C33.idx.loop")
        small = [b for b in sorted(r.reachable_from([0])) if r.blocks[b]["t"]["k"] == "switch" and has_all(ctx.leaves(r.switch_discr_expr(b)), ["call:*::pow", "a1", "a2"])]
        ctx.check(len(small) == 1, "C33.idx.small-square", r.path, "whole-square enumeration when width^2 <= max_samples_needed", key="C33.idx.small-square")
