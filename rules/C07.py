"""C07 — Bad-encoding fraud proofs are sound and complete."""
from engine.rules import Cmp, Guards, Has, call_expr, edge_call_truth, exit_sites, per_iteration, require_guard, switches_on, variant_index
from engine.mir import has_all, has_leaf

T = "celestia_types::"
V = "<celestia_types::byzantine::BadEncodingFraudProof as celestia_types::fraud_proof::FraudProof>::validate"
CLAUSE = (
    "Decides the accepts-only-if skeleton of BadEncodingFraudProof::validate over all CFG paths: height equality, "
    "index < square width, shares.len() == width, present-share count >= ods width, `?` on verify_range for every "
    "present share, the (axis, proof_axis) -> root selection table, a per-share comparison binding the proof's own "
    "position to the position the share occupies, and the final recomputed-root != committed-root decision; plus, "
    "in the node, that the network-compromised token is triggered only past the accepting edge of validate for the "
    "header fetched by the proof's header hash."
)
NOT_DECIDED = "Completeness for genuinely corrupted squares; leopard reconstruction; which index each axis combination must bind."
ENGINES = "G (must-check, per-iteration), S (root selection table over dominating match arms), O (trigger after validate)"
ASSUMPTIONS = ["nmt-rs verify_range and leopard-codec are opaque"]
POS = ["call:*NamespaceProof*::start_idx", "call:*NamespaceProof*::end_idx", "call:*Proof*::range", "call:*Proof*::start_idx"]


def run(ctx):
    f = ctx.anchor(V)
    if f:
        require_guard(ctx, f, Cmp(["a2", "call:*ExtendedHeader::height"], ["a1"], pass_op="Eq", name="header.height() == proof height"), "C07.height")
        require_guard(ctx, f, Cmp(["a1.index"], ["call:*DataAvailabilityHeader::square_width", "a2.dah"], pass_op="Lt", name="index < square width"), "C07.index")
        require_guard(ctx, f, Cmp(["len:a1.shares"], ["call:*DataAvailabilityHeader::square_width"], pass_op="Eq", name="shares.len() == square width"), "C07.len")
        require_guard(ctx, f, Cmp(["a1.shares", "call:*::count"], ["call:*DataAvailabilityHeader::square_width"], pass_op="Ge", name="present shares >= ods width"), "C07.count")
        per_iteration(ctx, f, ["a1.shares"], Has("call:*NamespaceProof*::verify_range", ["call:*::row_root", "call:*::column_root"], name="?verify_range"), "C07.share-proof", "every present share ?-verified against a DAH root", skip=Has("a1.shares"))
        per_iteration(ctx, f, ["a1.shares"], Cmp([POS], [["a1.index", "a1.shares"]], name="proof position == share position"), "C07.position", "every present share's proof is bound to the position it occupies", skip=Has("a1.shares"))
        # the verifying loop visits every entry of self.shares (the reconstruction below uses all
        # present shares, so an unverified one must not exist): no truncating iterator adaptor
        from engine.rules import loop_heads
        from engine.mir import std_tail, walk
        vr = f.call_sites(["*NamespaceProof*::verify_range"])
        heads = [(nb, en) for nb, en in loop_heads(ctx, f, ["a1.shares"]) if vr and any(v in f.reachable_from([en]) for v in vr)]
        bad = []
        for nb, en in heads:
            it = call_expr(f, nb)
            for n in walk(it):
                if n[0] == "call" and std_tail(n[2]) in ("Iterator::take", "Iterator::skip", "Iterator::take_while", "Iterator::skip_while", "Iterator::step_by", "Iterator::nth", "Iterator::filter", "Iterator::map_while"):
                    bad.append(std_tail(n[2]))
                if n[0] == "call" and std_tail(n[2]) in ("Index::index",) :
                    bad.append("sub-slice")
        ctx.check(len(heads) == 1 and not bad, "C07.all-shares", f.path, "the proof-checking loop iterates over all of self.shares (no take/skip/filter/sub-slice: %s)" % (bad or "ok"), key="C07.all-shares")
        # root selection table
        ax = T + "eds::AxisType"
        row_i, col_i = variant_index(ctx, ax, "Row"), variant_index(ctx, ax, "Col")
        want = {("Row", "Row"): ("row_root", True), ("Row", "Col"): ("column_root", False), ("Col", "Row"): ("row_root", False), ("Col", "Col"): ("column_root", True)}
        got = {}
        loops = [b for b in f.call_sites(["*::next"]) if has_leaf(ctx.leaves(call_expr(f, b)), "a1.shares")]
        for b in f.call_sites(["*DataAvailabilityHeader::row_root", "*DataAvailabilityHeader::column_root"]):
            conds = f.edge_conditions(b)
            self_axis = proof_axis = None
            for s, lab, d in conds:
                e = f.switch_discr_expr(s)
                if e[0] != "discr":
                    continue
                ls = ctx.leaves(e)
                name = {row_i: "Row", col_i: "Col"}.get(lab)
                if lab == "otherwise":
                    vals = [v for v, _ in f.blocks[s]["t"]["targets"]]
                    rest = [n for i, n in ((row_i, "Row"), (col_i, "Col")) if i not in vals]
                    name = rest[0] if len(rest) == 1 else None
                if name is None:
                    continue
                if has_leaf(ls, "a1.axis"):
                    self_axis = name
                elif has_leaf(ls, "field:proof_axis"):
                    proof_axis = name
            if self_axis and proof_axis:
                t = f.blocks[b]["t"]
                kind = "row_root" if "row_root" in (t.get("rf") or t.get("f")) else "column_root"
                uses_index = has_leaf(ctx.leaves(call_expr(f, b)), "a1.index")
                got[(self_axis, proof_axis)] = (kind, uses_index, f.loc(b))
        for k, (kind, idx) in want.items():
            g = got.get(k)
            ctx.check(g is not None and g[0] == kind and g[1] == idx, "C07.root-table", f.path,
                      "(axis=%s, proof_axis=%s) -> %s(%s)" % (k[0], k[1], kind, "self.index" if idx else "share position"),
                      site=g[2] if g else None, key="C07.root-table|%s|%s" % k)
        # final decision: accept iff recomputed root != committed root, except on the explicit
        # "could not reconstruct / re-encode / rebuild" arms
        exits = [x for x in exit_sites(f) if x["kind"] in ("accept", "may")]
        excused = set()
        for s in switches_on(ctx, f, [["call:leopard_codec::reconstruct", "call:leopard_codec::encode", "call:*push_leaf", "call:*Namespace::from_raw"]]):
            de = f.switch_discr_expr(s)
            for d, lab in f.out_edges(s):
                err_edge = edge_call_truth(ctx, f, s, lab, ["*Result*::is_err"]) is True
                if de[0] == "discr" and de[1][0] == "call" and de[1][1].endswith("Namespace::from_raw") and lab != 0:
                    err_edge = True  # `let Ok(ns) = from_raw(..) else { .. }`: the Err arm
                if not err_edge:
                    continue
                for x in exits:
                    if x["block"] not in f.reachable_from([0], removed_edges={(s, d)}):
                        excused.add(x["block"])
        final = [x["block"] for x in exits if x["block"] not in excused]
        ctx.check(len(excused) >= 1 and len(final) >= 1, "C07.final.shape", f.path, "accepting exits: %d on failed-reconstruction arms, %d final" % (len(excused), len(final)), key="C07.final.shape")
        if final:
            require_guard(ctx, f, Cmp(["call:*::root"], [["call:*::row_root", "call:*::column_root"], "a1.index"], pass_op="Ne", name="recomputed root != committed root"), "C07.final", targets=final)
        # rebuilding the axis: only shares of the ORIGINAL data square carry a namespace prefix. The
        # attempt to parse one (whose failure is an "encoding is bad" exit) is made only for the first
        # half of an axis that itself lies in the first half of the square - for a parity row/column
        # every leaf is committed under PARITY_SHARE, and parsing parity bytes as a namespace turns an
        # honest block into a "fraud".
        enc = f.call_sites(["leopard_codec::encode"])
        if enc:
            after = f.reachable_from([enc[0]])
            nsr = [b for b in f.call_sites(["*Namespace::from_raw"]) if b in after]
            ctx.check(len(nsr) >= 1, "C07.rebuild.ns-site", f.path, "namespace parse in the rebuild loop: %d" % len(nsr), key="C07.rebuild.ns-site")
            for b in nsr:
                require_guard(ctx, f, Cmp(["a1.index"], ["call:*::square_width", "lit:2"], pass_op="Lt", name="axis index < ods width (the axis is in the original-data half)"), "C07.rebuild.axis-half", targets=[b], start=[enc[0]])
                require_guard(ctx, f, Cmp(["call:*Iterator*::next"], ["call:*::square_width", "lit:2"], pass_op="Lt", name="share position < ods width"), "C07.rebuild.share-half", targets=[b], start=[enc[0]])
    n = ctx.anchor("lumina_node::p2p::Worker::<B, S>::on_bad_encoding_fraud_sub_message")
    if n:
        trig = n.call_sites(["*Token::trigger"])
        ctx.check(len(trig) >= 1, "C07.node.trigger-site", n.path, "network-compromised trigger site present", key="C07.node.trigger-site")
        if trig:
            require_guard(ctx, n, Has("call:*FraudProof*::validate", "call:*get_by_hash", "call:*header_hash", name="validate(header fetched by befp.header_hash()) honoured"), "C07.node.trigger", targets=trig)
            require_guard(ctx, n, Has("call:tendermint_proto::Protobuf::decode", "data", name="decode honoured"), "C07.node.decode", targets=trig)
