"""C06 — Namespace data is sound and complete."""
from engine.rules import Cmp, Has, call_expr, call_sites_with, per_iteration, require_guard
from engine.mir import has_all, has_leaf

T = "celestia_types::"
CLAUSE = (
    "Decides over all CFG paths: RowNamespaceData::verify rejects a proof-type/emptiness mismatch, takes the root "
    "from dah.row_root(id.row_index()) and returns the result of verify_complete_namespace(root, self.shares, "
    "id.namespace()); NamespaceData::verify accepts only past the comparison of self.rows.len() with the number of "
    "DAH rows whose range contains the namespace (dah.row_contains filter) and `?`-verifies every row with an id "
    "built from that filtered index list (not from the response); RowNamespaceData::from_raw rejects shares of a "
    "foreign namespace; the shrex codec returns Ok only past from_raw and verify."
)
NOT_DECIDED = "Equality with a brute-force scan of the square; nmt-rs completeness logic."
ENGINES = "G (must-check, per-iteration, closure-carried comparisons)"
ASSUMPTIONS = ["nmt-rs verify_complete_namespace is opaque"]


def run(ctx):
    f = ctx.anchor(T + "row_namespace_data::RowNamespaceData::verify")
    if f:
        require_guard(ctx, f, Has(["call:*NamespaceProof*::is_of_presence", "call:*NamespaceProof*::is_of_absence"], "a1.proof", within=["len:a1.shares"], name="proof type consistent with emptiness of shares"), "C06.row.prooftype")
        require_guard(ctx, f, Has("call:*DataAvailabilityHeader::row_root", "call:*RowNamespaceDataId::row_index", "a2", "a3", name="root = dah.row_root(id.row_index())"), "C06.row.root")
        require_guard(ctx, f, Has("call:*NamespaceProof*::verify_complete_namespace", "a1.proof", "a1.shares", "call:*RowNamespaceDataId::namespace", "call:*DataAvailabilityHeader::row_root", name="result of verify_complete_namespace(root, shares, id.namespace())"), "C06.row.verify")
    g = ctx.anchor(T + "namespace_data::NamespaceData::verify")
    if g:
        require_guard(ctx, g, Cmp(["call:*DataAvailabilityHeader::square_width", "a3", "closure:*NamespaceData::verify*"], ["len:a1.rows"], pass_op="Eq", name="rows.len() == number of DAH rows containing the namespace"), "C06.ns.count")
        # the filter closure decides by dah.row_contains(row, id.namespace)
        fam = [p for p in ctx.facts.family(g.path)[1:]]
        okc = False
        for p in fam:
            cb = ctx.fn(p)
            if cb.call_sites(["*DataAvailabilityHeader::row_contains"]):
                e = call_expr(cb, cb.call_sites(["*DataAvailabilityHeader::row_contains"])[0])
                okc = has_all(ctx.leaves(e), ["dah", "id.namespace"]) or has_all(ctx.leaves(e), ["dah", "id"])
        ctx.check(okc, "C06.ns.filter", g.path, "row filter is dah.row_contains(row, id.namespace)", key="C06.ns.filter")
        per_iteration(ctx, g, ["a1.rows"], Has("call:*RowNamespaceData::verify", "a3", "call:*RowNamespaceDataId::new", name="?row.verify(id built from filtered index, dah)"), "C06.ns.rows", "every row ?-verified")
        ids = call_sites_with(ctx, g, ["*RowNamespaceDataId::new"])
        ok = bool(ids)
        for b in ids:
            e = call_expr(g, b)
            idx = ctx.leaves(e[3][1])
            ok = ok and has_leaf(idx, "call:*DataAvailabilityHeader::square_width") and has_leaf(ctx.leaves(e[3][0]), "a2.namespace")
        ctx.check(ok, "C06.ns.index-source", g.path, "row id uses the namespace of the request and the index from the DAH-derived list", key="C06.ns.index-source")
    r = ctx.anchor(T + "row_namespace_data::RowNamespaceData::from_raw")
    if r:
        require_guard(ctx, r, Has("call:*Iterator::all", "a1.namespace", name="all shares carry id.namespace"), "C06.from_raw.namespace")
        require_guard(ctx, r, Has("a2.proof", name="missing proof rejected"), "C06.from_raw.proof")
    c = ctx.anchor("<celestia_types::namespace_data::NamespaceData as lumina_node::p2p::shrex::codec::ResponseCodec>::decode_and_verify")
    if c:
        require_guard(ctx, c, Has("call:*NamespaceData::from_raw", "a2", name="?NamespaceData::from_raw(req, rows)"), "C06.codec.from_raw")
        require_guard(ctx, c, Has("call:*NamespaceData::verify", "a2", "a3", name="?ns_data.verify(req, dah)"), "C06.codec.verify")
