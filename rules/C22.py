"""C22 — The persistent store survives crashes at any point (structural precondition only)."""
from engine.rules import all_call_sites, call_result_honoured, root_fn
from rules.storelib import RB, tx_call_count, tx_closure, redb_write_sites

CLAUSE = (
    "Decides only the structural precondition that lets redb's crash semantics carry the property: every mutating "
    "Store operation of RedbStore (insert, update_sampling_metadata, mark_as_sampled, remove_height, and the schema "
    "set-up in new) performs exactly one write_tx call and no table write outside a write_tx closure (shared with "
    "C20), the commit result is propagated, success is reported to the caller only after write_tx returned, and "
    "nothing in the workspace lowers the transaction durability (no call to set_durability / set_two_phase_commit / "
    "set_quick_repair), so redb's default Durability::Immediate stays in force."
)
NOT_DECIDED = "redb's crash consistency itself (fsync ordering, checksums, recovery), which carries the behavioural property."
ENGINES = "W (one transaction per operation; forbidden-callee list with zero expected matches), O"
ASSUMPTIONS = ["redb 2.6.3: default durability is Immediate; a committed transaction is durable and an uncommitted one leaves no trace"]
OPS = ["insert", "update_sampling_metadata", "mark_as_sampled", "remove_height", "new"]


def run(ctx):
    for op in OPS:
        n = tx_call_count(ctx, op)
        ctx.check(n == 1, "C22.one-tx", RB + "RedbStore::" + op, "%s performs exactly one write transaction (found %d)" % (op, n), key="C22.one-tx|" + op)
        f = ctx.anchor(RB + "RedbStore::" + op)
        if f:
            for b in f.call_sites([RB + "RedbStore::write_tx"]):
                call_result_honoured(ctx, f, b, "C22.tx-result", "%s: result of write_tx honoured before reporting success" % op)
    forbidden = ["*::set_durability", "*::set_two_phase_commit", "*::set_quick_repair"]
    hits = all_call_sites(ctx, ["lumina_node", "celestia_grpc", "lumina_utils"], forbidden)
    ctx.check(len(hits) == 0, "C22.durability", "-", "no call lowers redb durability (found %d)" % len(hits), key="C22.durability")
    # positive control for the zero-expected rule: the matcher does see redb calls
    ctrl = all_call_sites(ctx, ["lumina_node"], ["redb::transactions::WriteTransaction::commit", "redb::db::Database::begin_write"])
    ctx.floor("C22.control", "redb transaction calls seen by the matcher", len(ctrl), 2)
    ws = redb_write_sites(ctx)
    ctx.floor("C22.write-sites", "redb write sites analysed", len(ws), 12)
