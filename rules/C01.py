"""C01 — Header validation binds signatures, validator set and DAH."""
from engine.rules import Cmp, Has, aggregates, call_sites_with, exit_sites, require_guard, return_leaves
from engine.mir import has_all, has_leaf

T = "celestia_types::"
EH = T + "extended_header::ExtendedHeader::"
CLAUSE = (
    "Decides the soundness skeleton of header validation over all CFG paths: no accepting return of "
    "ExtendedHeader::validate is reachable without (g1-g3) the three validate_basic calls, (g4) validator-set hash "
    "== header.validators_hash, (g5) dah.hash() == header.data_hash, (g6) commit.height == header height, (g7) "
    "commit.block_id.hash == header.hash(), (g8) verify_commit_light(chain_id, height, commit) on self.validator_set, "
    "(g9) a supported app version and (g10) dah.validate_basic(app_version); verify_commit_light itself checks the "
    "signature count and height and tallies a validator's power only past `?` on vote_sign_bytes and "
    "verify_signature; the signed vote is built from the commit's height, round, block id and the signature's "
    "timestamp and validator address; DAH hash covers row and column roots; DAH validate_basic has its three width "
    "guards; decode_and_validate / TryFrom<Raw> (hence serde) return Ok only past `?` on validate."
)
NOT_DECIDED = "That honest headers are accepted; that every mutated signature is detected (light verification stops at quorum by design); tendermint-rs hashing and signature code."
ENGINES = "G (must-check, operand-separated comparisons), O (tally after signature check), D (vote/DAH-hash dependence)"
ASSUMPTIONS = ["tendermint-rs Header::hash, Set::hash, verify_signature, into_signable_vec are opaque and trusted"]


def run(ctx):
    f = ctx.anchor(EH + "validate")
    if f:
        require_guard(ctx, f, Has("call:*ValidateBasic*::validate_basic", "a1.header", name="g1 ?header.validate_basic()"), "C01.g1")
        require_guard(ctx, f, Has("call:*ValidateBasic*::validate_basic", "a1.commit", name="g2 ?commit.validate_basic()"), "C01.g2")
        require_guard(ctx, f, Has("call:*ValidateBasic*::validate_basic", "a1.validator_set", name="g3 ?validator_set.validate_basic()"), "C01.g3")
        require_guard(ctx, f, Cmp(["call:tendermint::validator::Set::hash", "a1.validator_set"], ["a1.header.validators_hash"], pass_op="Eq", name="g4 validator_set.hash() == header.validators_hash"), "C01.g4")
        require_guard(ctx, f, Cmp(["call:*DataAvailabilityHeader::hash", "a1.dah"], ["a1.header.data_hash"], pass_op="Eq", name="g5 dah.hash() == header.data_hash"), "C01.g5")
        require_guard(ctx, f, Cmp(["a1.commit.height"], [["a1.header.height", "call:*ExtendedHeader::height"]], pass_op="Eq", name="g6 commit.height == header height"), "C01.g6")
        require_guard(ctx, f, Cmp(["a1.commit.block_id.hash"], ["call:tendermint::block::*Header::hash", "a1.header"], pass_op="Eq", name="g7 commit.block_id.hash == header.hash()"), "C01.g7")
        require_guard(ctx, f, Has("call:*ValidatorSetExt*::verify_commit_light", "a1.validator_set", "a1.header.chain_id", "a1.header.height", "a1.commit", name="g8 ?verify_commit_light(chain_id, height, commit)"), "C01.g8")
        require_guard(ctx, f, Has("call:*AppVersion::from_u64", "a1.header.version.app", name="g9 supported app version"), "C01.g9")
        require_guard(ctx, f, Has("call:*ValidateBasicWithAppVersion*::validate_basic", "a1.dah", "call:*AppVersion::from_u64", name="g10 ?dah.validate_basic(app_version)"), "C01.g10")
    v = ctx.anchor("<tendermint::validator::Set as celestia_types::validator_set::ValidatorSetExt>::verify_commit_light")
    if v:
        require_guard(ctx, v, Cmp(["a1", "call:*Set::validators"], ["len:a4.signatures"], pass_op="Eq", name="validators.len() == commit.signatures.len()"), "C01.vcl.count")
        require_guard(ctx, v, Cmp(["a3"], ["a4.height"], pass_op="Eq", name="height == commit.height"), "C01.vcl.height")
        require_guard(ctx, v, Cmp(["call:*validator::Info::power"], ["call:*TrustLevelRatio::voting_power_needed"], pass_op="Gt", name="accept only on tallied > 2/3 needed (strict; every earlier signature is bound)"), "C01.vcl.threshold")
        tally = call_sites_with(ctx, v, ["*validator::Info::power"])
        ctx.check(len(tally) >= 1, "C01.vcl.tally-site", v.path, "tally reads validator.power()", key="C01.vcl.tally-site")
        if tally:
            require_guard(ctx, v, Has("call:*CommitExt*::vote_sign_bytes", "a2", "a4", name="?commit.vote_sign_bytes(chain_id, idx)"), "C01.vcl.sign-bytes", targets=tally, cut_back_edges=True)
            require_guard(ctx, v, Has("call:*verify_signature", "call:*CommitExt*::vote_sign_bytes", "a1", "a4.signatures", name="?validator.verify_signature(sign_bytes, signature)"), "C01.vcl.signature", targets=tally, cut_back_edges=True)
    s = ctx.anchor("<tendermint::block::commit::Commit as celestia_types::block::commit::CommitExt>::vote_sign_bytes")
    if s:
        ags = aggregates(ctx, s, "tendermint::*Vote")
        ctx.check(len(ags) == 1, "C01.vote.site", s.path, "exactly one Vote is built", key="C01.vote.site")
        if ags:
            b, fields, loc = ags[0]
            want = {"height": "a1.height", "round": "a1.round", "block_id": "a1.block_id", "timestamp": "a1.signatures", "validator_address": "a1.signatures", "validator_index": "a3"}
            for fld, leaf in want.items():
                e = fields.get(fld)
                ctx.check(e is not None and has_leaf(ctx.leaves(e), leaf), "C01.vote." + fld, s.path, "Vote.%s derives from %s" % (fld, leaf), site=loc, key="C01.vote." + fld)
        rl = return_leaves(ctx, s, kinds=("accept",))
        ctx.check(has_all(rl, ["call:*into_signable_vec", "a2"]), "C01.vote.signable", s.path, "returned bytes are Vote::into_signable_vec(chain_id)", key="C01.vote.signable")
    h = ctx.anchor(T + "data_availability_header::DataAvailabilityHeader::hash")
    if h:
        rl = return_leaves(ctx, h)
        ctx.check(has_all(rl, ["a1.row_roots", "a1.column_roots", "call:*simple_hash_from_byte_vectors"]), "C01.dah.hash", h.path, "hash depends on row_roots and column_roots", key="C01.dah.hash")
    d = ctx.anchor("<celestia_types::data_availability_header::DataAvailabilityHeader as celestia_types::validate::ValidateBasicWithAppVersion>::validate_basic")
    if d:
        require_guard(ctx, d, Cmp(["len:a1.column_roots"], ["len:a1.row_roots"], pass_op="Eq", name="columns == rows"), "C01.dah.square")
        require_guard(ctx, d, Cmp(["len:a1.row_roots"], ["const:*MIN_EXTENDED_SQUARE_WIDTH"], pass_op="Ge", name="width >= min"), "C01.dah.min")
        require_guard(ctx, d, Cmp(["len:a1.row_roots"], ["call:*max_extended_square_width", "a2"], pass_op="Le", name="width <= max(app_version)"), "C01.dah.max")
    for p, nm in ((EH + "decode_and_validate", "decode_and_validate"), ("<celestia_types::extended_header::ExtendedHeader as core::convert::TryFrom<celestia_proto::header::pb::ExtendedHeader>>::try_from", "TryFrom<RawExtendedHeader>")):
        e = ctx.anchor(p)
        if e:
            require_guard(ctx, e, Has("call:*ExtendedHeader::validate", name="?validate()"), "C01.entry." + nm)
