"""C41 — Closing the redb store waits for in-flight work without hanging."""
from engine.rules import Cmp, Has, all_call_sites, call_expr, call_sites_with, exit_sites, precedes, release_sites, holder_locals, require_guard, yields
from engine.mir import has_all, has_leaf
from rules.storelib import RB

CN = "lumina_node::utils::counter::"
CLAUSE = (
    "Decides the lost-wake-up shape of the guard counter over all CFG paths: CounterGuard::drop releases its Arc "
    "reference (a drop of a value taken from self.counter) before it calls notify_waiters on every path - notify-"
    "then-release (including release by the implicit field drop after the body) lets the waiter re-check too early "
    "and sleep forever; Counter::wait_guards registers a Notified future before its first strong_count check and "
    "re-registers one after every wake-up before the next check, awaits exactly that registered future, and leaves "
    "only on the strong_count <= 1 edge; every spawn_blocking of the redb store except Database::create moves a "
    "CounterGuard into the blocking closure; Store::close takes the store by value and returns only past the "
    "completed wait_guards future."
)
NOT_DECIDED = "tokio's Notify semantics (notify_waiters wakes futures created before the call); behaviour under real schedules."
ENGINES = "O (ordering / register-before-check), W (guard captured by every blocking task)"
ASSUMPTIONS = ["tokio::sync::Notify: a Notified future created before notify_waiters() is woken by it"]


def run(ctx):
    d = ctx.anchor("<lumina_node::utils::counter::CounterGuard as core::ops::drop::Drop>::drop")
    if d:
        notif = d.call_sites(["tokio::sync::notify::Notify::notify_waiters", "tokio::sync::notify::Notify::notify_one"])
        # values taken out of self.counter, and their release points
        takes = [b for b in call_sites_with(ctx, d, ["*Option*::take", "core::mem::take", "core::mem::replace", "*Arc*::clone"]) if has_leaf(ctx.leaves(call_expr(d, b)), "a1.counter")]
        seeds = set()
        hold = set()
        for b in takes:
            hold.add(d.blocks[b]["t"]["dest"]["l"])
        hold |= holder_locals(d, {(l, ()) for l in hold})
        rel = release_sites(d, hold, seeds={(1, ("counter",))})
        # an assignment `self.counter = None` drops the old value in place
        for b in range(d.n):
            t = d.blocks[b]["t"]
            if not d.blocks[b]["cl"] and t["k"] == "drop" and t["p"]["l"] == 1 and "counter" in [x[2] for x in t["p"].get("p", []) if isinstance(x, list) and x[0] == "f"]:
                rel.append(b)
        ctx.check(len(notif) >= 1, "C41.drop.notify-site", d.path, "guard drop notifies the waiter", key="C41.drop.notify-site")
        ctx.check(len(rel) >= 1, "C41.drop.release-site", d.path, "guard drop explicitly releases its counter reference inside the body (found %d release points)" % len(rel), key="C41.drop.release-site")
        if notif and rel:
            precedes(ctx, d, sorted(set(rel)), notif, "C41.drop.release-before-notify", "the counter reference is released before notify_waiters")
    w = ctx.anchor(CN + "Counter::wait_guards")
    if w:
        reg = w.call_sites(["tokio::sync::notify::Notify::notified"])
        chk = w.call_sites(["alloc::sync::Arc::<T, A>::strong_count", "alloc::sync::Arc::<T>::strong_count", "*Arc*::strong_count"])
        ctx.check(len(reg) >= 2 and len(chk) >= 1, "C41.wait.sites", w.path, "notified() registrations: %d, strong_count checks: %d" % (len(reg), len(chk)), key="C41.wait.sites")
        if reg and chk:
            precedes(ctx, w, reg, chk, "C41.wait.register-before-first-check", "a Notified future exists before the first strong_count check")
            # after every wake-up (Ready edge of the awaited poll) a new registration precedes the next check
            polls = [b for b in sorted(w.reachable_from([0])) if w.blocks[b]["t"]["k"] == "switch" and has_leaf(ctx.leaves(w.switch_discr_expr(b)), "call:*Future::poll")]
            ctx.check(len(polls) >= 1, "C41.wait.await", w.path, "await of the registered future found", key="C41.wait.await")
            ok = True
            for pb in polls:
                e = w.switch_discr_expr(pb)
                ctx.check(has_leaf(ctx.leaves(e), "call:tokio::sync::notify::Notify::notified"), "C41.wait.awaits-registered", w.path, "the awaited future is the registered Notified", site=w.loc(pb), key="C41.wait.awaits-registered")
                ready = [d for d, lab in w.out_edges(pb) if lab == 0]
                removed = set()
                for r in reg:
                    for dd, _ in w.out_edges(r):
                        removed.add((r, dd))
                p = w.path_to(ready, set(chk), removed)
                if p is not None:
                    ok = False
            ctx.check(ok, "C41.wait.reregister", w.path, "after every wake-up a fresh Notified is registered (and installed) before the next strong_count check", key="C41.wait.reregister")
            sets = w.call_sites(["core::pin::Pin::<Ptr>::set"])
            ok2 = bool(sets) and all(has_leaf(ctx.leaves(call_expr(w, b)), "call:tokio::sync::notify::Notify::notified") for b in sets)
            ctx.check(ok2, "C41.wait.install", w.path, "the fresh Notified replaces the awaited one (Pin::set)", key="C41.wait.install")
            require_guard(ctx, w, Cmp(["call:*Arc*::strong_count", "self.counter"], ["lit:1"], pass_op="Le", name="leave only when strong_count <= 1"), "C41.wait.exit")
    # every blocking database task holds a guard
    sb = []
    for p in ctx.facts.crates["lumina_node"].order:
        if p.startswith(RB):
            b = ctx.fn(p)
            for blk in b.call_sites(["tokio::task::blocking::spawn_blocking", "*::spawn_blocking"]):
                sb.append((b, blk))
    ctx.floor("C41.blocking.sites", "spawn_blocking sites in the redb store", len(sb), 3)
    for b, blk in sb:
        e = call_expr(b, blk)
        ls = ctx.leaves(e)
        if has_leaf(ls, "call:redb::db::Database::create") or "RedbStore::open" in b.path:
            ctx.ok("C41.blocking.guard", b.path, "Database::create needs no guard (store does not exist yet)", site=b.loc(blk))
            continue
        ctx.check(has_leaf(ls, "call:" + CN + "Counter::guard"), "C41.blocking.guard", b.path, "blocking task captures a CounterGuard", site=b.loc(blk), key="C41.blocking.guard|" + b.path)
        # ... and the guard is moved into the closure's frame (dropped when the task ends)
    c = ctx.anchor("<lumina_node::store::redb_store::RedbStore as lumina_node::store::Store>::close")
    if c:
        require_guard(ctx, c, Has("call:*Future::poll", "call:" + CN + "Counter::wait_guards", name="close returns only after wait_guards completed", awaits=True), "C41.close.waits")
        fm = ctx.facts.fn_meta("<lumina_node::store::redb_store::RedbStore as lumina_node::store::Store>::close")
        ok = fm is not None and "(lumina_node::store::redb_store::RedbStore)" in fm["sig"].replace("[", "(").replace("]", ")").split("->")[0]
        ctx.check(ok, "C41.close.by-value", c.path, "close(self) consumes the store (no further tasks can be started on it)", key="C41.close.by-value", detail=fm["sig"] if fm else None)
