"""C43 — Transaction submission keeps account sequences consistent."""
from engine.cone import Cone
from engine.rules import Cmp, Direct, Has, call_expr, call_sites_with, edge_call_truth, exit_sites, never_after, release_sites, holder_locals, require_guard, root_fn, value_source_calls, yields
from engine.mir import glob, has_all, has_leaf, norm_proj, walk

G = "celestia_grpc::client::"
C = G + "GrpcClient::"
CLAUSE = (
    "Decides: in sign_and_broadcast_tx and sign_and_broadcast_blobs the account lock guard obtained from "
    "lock_account is neither dropped nor moved away on any path before sign_tx / broadcast_tx_with_account (signing "
    "and broadcasting happen under one lock) and the signed account is the locked one; BaseAccount.sequence is written "
    "only at the frozen sites: +1 on the Ok arm and on the TxInMempoolCache arm of broadcast_tx_with_account, "
    ":= the node's expected value on the sequence-mismatch arms of the two submit loops, := the rejected "
    "transaction's own sequence on the non-sequence Rejected arm of confirm_tx (under a fresh lock); the recorded "
    "BroadcastedTx.sequence is read before the broadcast; confirm_tx never reaches sign_tx or a signer, and what it "
    "re-broadcasts for Evicted/Unknown is a clone of the recorded transaction bytes."
)
NOT_DECIDED = "Interleavings with node answers (needs the protocol model)."
ENGINES = "O (guard live across sign+broadcast), W (who writes the sequence), D (must-not-reach, payload provenance)"
ASSUMPTIONS = ["tokio::sync::Mutex guard semantics"]
WRITERS = {C + "sign_and_broadcast_tx": 2, C + "sign_and_broadcast_blobs": 2, C + "broadcast_tx_with_account": 2, C + "confirm_tx": 1}


def seq_writes(ctx):
    out = []
    for p in ctx.facts.paths("celestia_grpc"):
        b = ctx.fn(p)
        for blk in range(b.n):
            if b.blocks[blk]["cl"]:
                continue
            for i, st in enumerate(b.stmts(blk)):
                pr = norm_proj(st["d"].get("p"))
                if pr and pr[-1] == "sequence" and ("*" in (st["d"].get("p") or []) or len(pr) > 1):
                    out.append((b, blk, i, st))
    return out


def run(ctx):
    for name in ("sign_and_broadcast_tx", "sign_and_broadcast_blobs"):
        f = ctx.anchor(C + name)
        if not f:
            continue
        lock = call_sites_with(ctx, f, [C + "lock_account"])
        sign = call_sites_with(ctx, f, [G + "sign_tx", "*::sign_tx"])
        bc = call_sites_with(ctx, f, [C + "broadcast_tx_with_account"])
        ctx.check(len(lock) == 1 and len(sign) >= 1 and len(bc) >= 1, "C43.%s.sites" % name, f.path, "lock: %d, sign: %d, broadcast: %d" % (len(lock), len(sign), len(bc)), key="C43.%s.sites" % name)
        guards = {i for i, l in enumerate(f.locals) if l[0].startswith(G + "AccountGuard")}
        hold = set(guards) | holder_locals(f, {(g, ()) for g in guards})
        rel = [b for b in release_sites(f, hold) if f.blocks[b]["t"]["k"] == "drop" or not any(glob(C + "*", x) for x in [f.blocks[b]["t"].get("rf") or ""])]
        ctx.check(len(guards) >= 1, "C43.%s.guard" % name, f.path, "account lock guard local present", key="C43.%s.guard" % name)
        if rel and (sign or bc):
            never_after(ctx, f, rel, sign + bc, "C43.%s.lock-held" % name, "the account lock is released before signing/broadcasting finished (a concurrent submission could reuse the sequence)")
        elif sign or bc:
            ctx.ok("C43.%s.lock-held" % name, f.path, "guard never released before the exits")
        for b in sign:
            ctx.check(has_leaf(ctx.leaves(call_expr(f, b)), "call:" + C + "lock_account"), "C43.%s.signs-locked" % name, f.path, "sign_tx uses the locked account (its current sequence)", site=f.loc(b), key="C43.%s.signs-locked" % name)
        for b in bc:
            ctx.check(has_all(ctx.leaves(call_expr(f, b)), ["call:" + C + "lock_account", "call:*sign_tx"]), "C43.%s.broadcasts-signed" % name, f.path, "the broadcast bytes are the transaction just signed, under the same lock", site=f.loc(b), key="C43.%s.broadcasts-signed" % name)
    # who writes the sequence
    ws = seq_writes(ctx)
    per = {}
    for b, blk, i, st in ws:
        per.setdefault(root_fn(b.path), []).append((b, blk, i, st))
    ctx.check(set(per) == set(WRITERS) and all(len(v) >= 1 for v in per.values()), "C43.writers", G, "BaseAccount.sequence is written only by the frozen set of functions: %s" % {k.split("::")[-1]: len(v) for k, v in per.items()}, key="C43.writers")
    bw = per.get(C + "broadcast_tx_with_account", [])
    for b, blk, i, st in bw:
        e = b.expr_rvalue(st["r"], (), blk, 0)
        inc = any(n[0] == "bin" and n[1].startswith("Add") and any(m[0] == "const" and m[1] == 1 for m in (n[2], n[3])) for n in walk(e))
        ctx.check(inc, "C43.advance", b.path, "the sequence is advanced by exactly one", site=b.loc(blk, i), key="C43.advance")
    if bw:
        wb = bw[0][0]
        incs = {blk for _b, blk, _i, _st in bw}
        acc_b = [x["block"] for x in exit_sites(wb) if x["kind"] == "accept"]
        rej_b = [x["block"] for x in exit_sites(wb) if x["kind"] == "reject"]
        # one advance per accepted broadcast: every accepting exit (plain success or `already in the mempool
        # cache`) is reached only through an increment, no path passes two, and no rejecting exit is reached
        # after one
        miss = wb.path_to([0], acc_b, (), incs) if acc_b else None
        ctx.check(bool(acc_b) and miss is None, "C43.advance.every-accept", wb.path, "every accepted broadcast advances the local sequence", key="C43.advance.every-accept", path=wb.render_path(miss) if miss else None)
        twice = any(wb.path_to(wb.succ(a1), [a2]) is not None for a1 in incs for a2 in incs)
        ctx.check(not twice, "C43.advance.once", wb.path, "no path advances the sequence twice", key="C43.advance.once")
        # (a rejecting return assigned in the very block of the increment counts as "after": the return
        # value is the last thing a block assigns)
        after = any(a1 in rej_b or wb.path_to(wb.succ(a1), rej_b) is not None for a1 in incs) if rej_b else False
        ctx.check(not after, "C43.advance.only-accepted", wb.path, "a rejected broadcast never advances the sequence", key="C43.advance.only-accepted")
    for fn in (C + "sign_and_broadcast_tx", C + "sign_and_broadcast_blobs"):
        for b, blk, i, st in per.get(fn, []):
            e = b.expr_rvalue(st["r"], (), blk, 0)
            ctx.check(has_leaf(ctx.leaves(e), "fn:" + G + "extract_sequence_on_mismatch") or has_leaf(ctx.leaves(e), "call:" + G + "extract_sequence_on_mismatch"), "C43.resync", b.path, "on a mismatch the sequence is set to the value extracted from the node's answer", site=b.loc(blk, i), key="C43.resync|" + fn.split("::")[-1])
    for b, blk, i, st in per.get(C + "confirm_tx", []):
        e = b.expr_rvalue(st["r"], (), blk, 0)
        ok = has_leaf(ctx.leaves(e), "tx.sequence")
        conds = b.edge_conditions(blk)
        ok = ok and any(edge_call_truth(ctx, b, s, lab, [G + "is_wrong_sequence"]) is False for s, lab, d in conds)
        ctx.check(ok, "C43.rollback", b.path, "roll back to the rejected transaction's own sequence, only when the rejection was not a sequence error", site=b.loc(blk, i), key="C43.rollback")
    a = ctx.anchor(C + "broadcast_tx_with_account")
    if a:
        acc = [x for x in exit_sites(a) if x["kind"] == "accept"]
        ok = bool(acc)
        for x in acc:
            for n in walk(x["expr"]):
                if n[0] == "agg" and str(n[1]).endswith("BroadcastedTx"):
                    flds = dict(zip(n[4], n[3]))
                    seqe = flds.get("sequence")
                    ok = ok and seqe is not None and has_all(ctx.leaves(seqe), ["account.base", "field:sequence"]) and not any(m[0] == "bin" for m in walk(seqe))
        ctx.check(ok, "C43.recorded-sequence", a.path, "BroadcastedTx.sequence is the sequence read before the broadcast (the one the tx was signed with)", key="C43.recorded-sequence")
    c = ctx.anchor(C + "confirm_tx")
    if c:
        cone = Cone(ctx, [C + "confirm_tx"], stop=["celestia_types::*", "<celestia_types::*", "celestia_proto::*"])
        bad = [p for p in cone.bodies if "sign_tx" in p or "DocSigner" in p or "::sign" in p.split("<")[0].lower()]
        ctx.check(not bad and len(cone.bodies) >= 3, "C43.no-resign", c.path, "confirm_tx cannot reach sign_tx / a signer (cone of %d bodies): %s" % (len(cone.bodies), bad[:2]), key="C43.no-resign")
        rb = call_sites_with(ctx, c, [C + "broadcast_tx_with_cfg"])
        ok = len(rb) == 2
        for b in rb:
            e = call_expr(c, b)
            pl = ctx.leaves(e[3][1])
            ok = ok and has_leaf(pl, "tx.tx") and has_leaf(pl, "call:*Clone::clone") and not any(l.startswith("call:celestia_grpc") for l in pl)
        ctx.check(ok, "C43.rebroadcast-identical", c.path, "Evicted/Unknown re-broadcast a clone of the recorded bytes", key="C43.rebroadcast-identical")
