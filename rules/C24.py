"""C24 — Syncer fetches missing, insertable heights nearest the head first (thin claim)."""
from engine.rules import Cmp, Has, all_call_sites, call_expr, call_sites_with, require_guard, root_fn
from engine.mir import has_all, has_leaf

S = "lumina_node::syncer::"
CLAUSE = (
    "Thin structural claim about how the batch calculation is fed and used: at every call site of "
    "calculate_range_to_fetch in the syncer the synced ranges argument derives from BOTH get_stored_header_ranges and "
    "get_pruned_ranges (so pruned heights are never re-requested), the head argument from subjective_head_height and "
    "the limit from batch_size; the header request is created only past the empty-batch guard, the connected-peers "
    "guard and the no-ongoing-batch guard, and requests exactly the calculated range."
)
NOT_DECIDED = "The arithmetic of calculate_range_to_fetch (a value table over range configurations)."
ENGINES = "D (argument provenance), O/G (guards before the request)"
ASSUMPTIONS = []


def find_sites(ctx):
    calc = all_call_sites(ctx, ["lumina_node"], [S + "calculate_range_to_fetch"], path_filter=lambda p: p.startswith(S))
    return calc


def request_sites(ctx, body):
    """Blocks that build the future calling P2p::get_unverified_header_range."""
    out = []
    for b in sorted(body.reachable_from([0])):
        for i, st in enumerate(body.stmts(b)):
            r = st["r"]
            if r["k"] == "agg" and r.get("ak") in ("coroutine", "closure"):
                cb = ctx.fn(r["def"])
                if cb is not None and cb.call_sites(["lumina_node::p2p::P2p::get_unverified_header_range"]):
                    out.append((b, i, r))
    return out


def run(ctx):
    calc_adjacent_rule(ctx, "C24")
    calc = find_sites(ctx)
    ctx.floor("C24.calc.sites", "calculate_range_to_fetch call sites in the syncer", len(calc), 1)
    for body, blk in calc:
        ctx.functions.add(body.path)
        e = call_expr(body, blk)
        head, ranges, limit = (ctx.leaves(a) for a in e[3][:3])
        ctx.check(has_leaf(head, "self.subjective_head_height"), "C24.calc.head", body.path, "head argument is the subjective head height", site=body.loc(blk), key="C24.calc.head")
        ctx.check(has_all(ranges, ["call:lumina_node::store::Store::get_stored_header_ranges", "call:lumina_node::store::Store::get_pruned_ranges"]), "C24.calc.ranges", body.path,
                  "synced ranges = stored + pruned", site=body.loc(blk), key="C24.calc.ranges")
        ctx.check(has_leaf(limit, "self.batch_size"), "C24.calc.limit", body.path, "limit is the configured batch size", site=body.loc(blk), key="C24.calc.limit")
        reqs = request_sites(ctx, body)
        ctx.check(len(reqs) == 1, "C24.request.site", body.path, "one request site for the calculated batch", key="C24.request.site")
        for b, i, r in reqs:
            caps = set()
            for o in r["ops"]:
                caps |= ctx.leaves(body.expr_operand(o, 0, b))
            ctx.check(has_leaf(caps, "call:" + S + "calculate_range_to_fetch"), "C24.request.range", body.path, "the requested range is the calculated batch", site=body.loc(b, i), key="C24.request.range")
            require_guard(ctx, body, Has("call:*::is_empty", "call:" + S + "calculate_range_to_fetch", name="empty batch -> no request"), "C24.request.nonempty", targets=[b])
            require_guard(ctx, body, Has("field:num_connected_peers", name="no connected peers -> no request"), "C24.request.peers", targets=[b])
            require_guard(ctx, body, Has("call:*is_terminated", "self.ongoing_batch", name="one batch at a time"), "C24.request.single", targets=[b])


def calc_adjacent_rule(ctx, prop):
    """calculate_range_to_fetch, backfill branch: the lower end of the gap comes from the synced range
    ADJACENT to the head range. Two independently seeded regressions replaced it by the LOWEST synced range
    (`lower_ranges.first()`, `rev_iter.last()`), which is identical for up to two ranges and wrong for three.
    Contradiction-style rule: it fires only when the lower bound provably derives from the lowest element
    (`first`, `Iterator::last`/`min` of a reversed iterator, `next` of a forward iterator, index 0); any other
    formulation is not judged."""
    from engine.mir import std_tail, walk
    from engine.rules import exit_sites
    c = ctx.anchor(S + "calculate_range_to_fetch")
    if not c:
        return
    bad = []
    seen = 0
    for x in exit_sites(c):
        for n in walk(x["expr"]):
            if n[0] == "call" and (std_tail(n[2]) or "").endswith("RangeInclusive::new") and n[3]:
                seen += 1
                lo = n[3][0]
                for m in walk(lo):
                    if m[0] != "call":
                        continue
                    tl = std_tail(m[2]) or ""
                    inner = {std_tail(k[2]) for a in m[3] for k in walk(a) if k[0] == "call"}
                    rev = any(t and t.endswith("::rev") for t in inner)
                    if tl in ("<impl [T]>::first", "<impl [T]>::first_mut") or (tl in ("Iterator::last", "Iterator::min", "Iterator::min_by_key") and rev) or (tl == "Iterator::next" and not rev and any(t and t.endswith("::iter") for t in inner)):
                        bad.append((tl, x["loc"]))
    ctx.check(seen >= 1, prop + ".calc.range-sites", c.path, "range constructions in the batch calculation: %d" % seen, key=prop + ".calc.range-sites")
    ctx.check(not bad, prop + ".calc.adjacent", c.path, "the backfill gap is bounded below by the synced range adjacent to the head range, not by the lowest synced range" + (" (lower bound derives from %s)" % bad[0][0] if bad else ""),
              site=bad[0][1] if bad else None, key=prop + ".calc.adjacent")
