"""C24 — Syncer fetches missing, insertable heights nearest the head first (thin claim)."""
from engine.rules import Cmp, Has, all_call_sites, call_expr, call_sites_with, require_guard, root_fn
from engine.mir import has_all, has_leaf

S = "lumina_node::syncer::"
CLAUSE = (
    "Thin structural claim about how the batch calculation is fed and used: at every call site of "
    "calculate_range_to_fetch in the syncer the synced ranges argument derives from BOTH get_stored_header_ranges and "
    "get_pruned_ranges (so pruned heights are never re-requested), the head argument from subjective_head_height and "
    "the limit from batch_size; the header request is created only past the empty-batch guard, the connected-peers "
    "guard and the no-ongoing-batch guard, and requests exactly the calculated range."
)
NOT_DECIDED = "The arithmetic of calculate_range_to_fetch (a value table over range configurations)."
ENGINES = "D (argument provenance), O/G (guards before the request)"
ASSUMPTIONS = []


def find_sites(ctx):
    calc = all_call_sites(ctx, ["lumina_node"], [S + "calculate_range_to_fetch"], path_filter=lambda p: p.startswith(S))
    return calc


def request_sites(ctx, body):
    """Blocks that build the future calling P2p::get_unverified_header_range."""
    out = []
    for b in sorted(body.reachable_from([0])):
        for i, st in enumerate(body.stmts(b)):
            r = st["r"]
            if r["k"] == "agg" and r.get("ak") in ("coroutine", "closure"):
                cb = ctx.fn(r["def"])
                if cb is not None and cb.call_sites(["lumina_node::p2p::P2p::get_unverified_header_range"]):
                    out.append((b, i, r))
    return out


def run(ctx):
    calc = find_sites(ctx)
    ctx.floor("C24.calc.sites", "calculate_range_to_fetch call sites in the syncer", len(calc), 1)
    for body, blk in calc:
        ctx.functions.add(body.path)
        e = call_expr(body, blk)
        head, ranges, limit = (ctx.leaves(a) for a in e[3][:3])
        ctx.check(has_leaf(head, "self.subjective_head_height"), "C24.calc.head", body.path, "head argument is the subjective head height", site=body.loc(blk), key="C24.calc.head")
        ctx.check(has_all(ranges, ["call:lumina_node::store::Store::get_stored_header_ranges", "call:lumina_node::store::Store::get_pruned_ranges"]), "C24.calc.ranges", body.path,
                  "synced ranges = stored + pruned", site=body.loc(blk), key="C24.calc.ranges")
        ctx.check(has_leaf(limit, "self.batch_size"), "C24.calc.limit", body.path, "limit is the configured batch size", site=body.loc(blk), key="C24.calc.limit")
        reqs = request_sites(ctx, body)
        ctx.check(len(reqs) == 1, "C24.request.site", body.path, "one request site for the calculated batch", key="C24.request.site")
        for b, i, r in reqs:
            caps = set()
            for o in r["ops"]:
                caps |= ctx.leaves(body.expr_operand(o, 0, b))
            ctx.check(has_leaf(caps, "call:" + S + "calculate_range_to_fetch"), "C24.request.range", body.path, "the requested range is the calculated batch", site=body.loc(b, i), key="C24.request.range")
            require_guard(ctx, body, Has("call:*::is_empty", "call:" + S + "calculate_range_to_fetch", name="empty batch -> no request"), "C24.request.nonempty", targets=[b])
            require_guard(ctx, body, Has("field:num_connected_peers", name="no connected peers -> no request"), "C24.request.peers", targets=[b])
            require_guard(ctx, body, Has("call:*is_terminated", "self.ongoing_batch", name="one batch at a time"), "C24.request.single", targets=[b])
