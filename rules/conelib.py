"""Shared runner for engine P (C16, C27, C29, C09 clause)."""
import json
import os

from engine.cone import Cone
from engine.panics import auto_discharge, enumerate_sites, load_audit, stable_key
from engine.rules import Cmp, Has, holds, short

HERE = os.path.dirname(os.path.dirname(os.path.abspath(__file__)))
AUDIT = os.path.join(HERE, "tables", "panic_audit.json")


def spec_from_json(j):
    if "any" in j:
        from engine.rules import AnyOf
        return AnyOf(*[spec_from_json(x) for x in j["any"]], name=j.get("name"))
    if "boolis" in j:
        from engine.rules import BoolIs
        calls, value = j["boolis"][0], j["boolis"][1]
        return BoolIs(calls, value, args=j["boolis"][2] if len(j["boolis"]) > 2 else (), name=j.get("name"))
    if "cmp" in j:
        a, b = j["cmp"][0], j["cmp"][1]
        return Cmp(a, b, pass_op=j["cmp"][2] if len(j["cmp"]) > 2 else None, name=j.get("name"))
    return Has(*j["has"], name=j.get("name"), within=j.get("within"))


def run_cone(ctx, tag, roots, min_bodies, stop=(), extra_filter=None, audit_path=None, coverage_key=None):
    cone = Cone(ctx, roots, stop=stop)
    for r in cone.unresolved:
        ctx.violate(tag + ".root", r, "cone root `%s` no longer exists" % r, key="%s.root|%s" % (tag, r))
    ctx.floor(tag + ".cone-size", "bodies in the call cone", len(cone.bodies), min_bodies)
    for p in cone.bodies:
        ctx.functions.add(p)
    audit = load_audit(audit_path or AUDIT)
    sites = enumerate_sites(ctx, cone)
    stats = dict(sites=len(sites), auto=0, invariant=0, requires=0, unaudited=0, findings=0)
    seen_keys = set()
    for s in sites:
        if extra_filter and not extra_filter(s):
            continue
        ctx.evaluations += 1
        reason = auto_discharge(s)
        key = stable_key(s)
        if reason:
            stats["auto"] += 1
            ctx.ok(tag + ".site", s.body.path, "%s(%s): %s" % (s.kind, s.text[:80], reason), site=s.loc)
            continue
        a = audit.get(key)
        if a is None:
            stats["unaudited"] += 1
            ch = " <- ".join(short(x) for x in reversed(cone.chain(s.body.path)[-4:]))
            ctx.violate(tag + ".unguarded", s.body.path, "panic-capable %s on a decode path with no discharging guard: %s   [reached via %s]" % (s.kind, s.text[:140], ch), site=s.loc, key="P|" + key)
            continue
        seen_keys.add(key)
        if a["status"] == "invariant":
            stats["invariant"] += 1
            if a.get("callers"):
                # the invariant is established by the listed callers: no other function of the
                # cone may call this one
                from engine.rules import root_fn
                me = root_fn(s.body.path)
                pats = [me]
                import re as _re
                m = _re.match(r"^<.+ as ([^<>]+?)(?:<.*>)?>::([A-Za-z_0-9]+)$", me)
                if m:
                    # calls through the trait on a type parameter (`M::hash_nodes`)
                    pats.append("*%s::%s" % (m.group(1).rsplit("::", 1)[-1], m.group(2)))
                callers = sorted({root_fn(p) for p, b in cone.bodies.items() if root_fn(p) != me and b.call_sites(pats)})
                extra = [c for c in callers if c not in a["callers"]]
                ctx.check(not extra, tag + ".callers", s.body.path, "%s relies on its decode-path callers (%s); unexpected caller(s): %s" % (s.kind, a["reason"][:80], extra), site=s.loc, key="P|callers|" + key)
            else:
                ctx.ok(tag + ".site", s.body.path, "%s audited: %s" % (s.kind, a["reason"]), site=s.loc)
        elif a["status"] == "requires":
            okall = True
            for j in a["requires"]:
                okk, _ = holds(ctx, s.body, spec_from_json(j), targets=[s.blk])
                okall = okall and okk
            stats["requires"] += 1
            ctx.check(okall, tag + ".requires", s.body.path, "%s needs its dominating guard (%s)" % (s.kind, a["reason"]), site=s.loc, key="P|" + key)
        else:
            stats["findings"] += 1
            ctx.violate(tag + ".finding", s.body.path, "%s: %s" % (s.kind, a["reason"]), site=s.loc, key="P|" + key)
    cov = dict(roots=len(roots), bodies=len(cone.bodies), extern_call_sites=len(cone.extern_calls), **stats)
    if not hasattr(ctx, "extra_coverage"):
        ctx.extra_coverage = {}
    ctx.extra_coverage[coverage_key or "cone"] = cov
    return cone, sites
