"""C44 — gRPC calls fail over across endpoints."""
from engine.rules import Cmp, Direct, Has, all_call_sites, call_expr, call_sites_with, edge_call_truth, exit_sites, loop_heads, require_guard, root_fn
from engine.mir import has_all, has_leaf

G = "celestia_grpc::"
CLAUSE = (
    "Decides for every expansion of the grpc_method macro (21 on the pinned tree, floor enforced): inside the "
    "endpoint loop an error is returned only on the false edge of is_network_error(); on the true edge the loop "
    "continues with the next endpoint (no exit is reachable from it inside the iteration); after the endpoints are "
    "exhausted the last network error is returned; ArcSwap::store happens only in these expansions, only when a "
    "non-first endpoint succeeded (idx > 0), and the stored vector is a clone of the loaded snapshot changed by "
    "`swap(0, idx)` only - so the endpoint set never changes and the successful endpoint moves to the front."
)
NOT_DECIDED = "Behaviour under concurrent callers interleaving load/store (ArcSwap semantics); tonic."
ENGINES = "G (must-check per macro instance), W (who stores), D (stored value provenance)"
ASSUMPTIONS = ["arc_swap load/store are atomic"]


def run(ctx):
    inst = []
    for p in ctx.facts.paths("celestia_grpc"):
        b = ctx.fn(p)
        if b.call_sites([G + "error::Error::is_network_error"]) and b.call_sites(["arc_swap::*::load"]):
            inst.append(b)
    ctx.floor("C44.instances", "grpc_method expansions with the failover loop", len(inst), 21)
    for b in inst:
        ctx.functions.add(b.path)
        short = root_fn(b.path).split("::")[-1]
        rej = [x for x in exit_sites(b) if x["kind"] == "reject"]
        heads = loop_heads(ctx, b, ["call:arc_swap::*::load"])
        okh = len(heads) == 1
        ctx.check(okh, "C44.loop", b.path, "%s: one loop over the endpoint snapshot" % short, key="C44.loop|" + short)
        if not okh:
            continue
        nb, entry = heads[0]
        back = {(x, d) for x in b.reachable_from([entry]) for d in b.succ(x) if d == nb or (b.dominates(d, x) and b.dominates(d, nb))}
        body_region = b.reachable_from([entry], removed_edges=back)
        in_loop = [x for x in rej if x["block"] in body_region and has_leaf(ctx.leaves(x["expr"]), "call:*Future::poll")]
        after = [x for x in rej if x not in in_loop]
        ctx.check(len(in_loop) >= 1 and len(after) >= 1, "C44.exits", b.path, "%s: error exits inside the loop: %d, after exhaustion: %d" % (short, len(in_loop), len(after)), key="C44.exits|" + short)
        for x in in_loop:
            conds = b.edge_conditions(x["block"])
            ok = any(edge_call_truth(ctx, b, s, lab, [G + "error::Error::is_network_error"]) is False for s, lab, d in conds)
            ctx.check(ok, "C44.non-network-only", b.path, "%s: an error leaves the endpoint loop only when it is not a network error" % short, site=x["loc"], key="C44.non-network-only|" + short)
        # network error -> next endpoint
        nsw = [s for s in sorted(body_region) if b.blocks[s]["t"]["k"] == "switch" and has_leaf(ctx.leaves(b.switch_discr_expr(s)), "call:" + G + "error::Error::is_network_error")]
        okc = bool(nsw)
        for s in nsw:
            for d, lab in b.out_edges(s):
                if edge_call_truth(ctx, b, s, lab, [G + "error::Error::is_network_error"]) is True:
                    reg = b.reachable_from([d], removed_edges=back)
                    if any(b.blocks[y]["t"]["k"] == "return" for y in reg):
                        okc = False
        ctx.check(okc, "C44.network-continues", b.path, "%s: a network error moves on to the next endpoint" % short, key="C44.network-continues|" + short)
        for x in after:
            ok = all(nb not in b.reachable_from([x["block"]]) for _ in [0]) and has_leaf(ctx.leaves(x["expr"]), ["call:*Option*::expect", "call:*Option*::unwrap", "call:*ok_or*"])
            ctx.check(ok, "C44.exhausted", b.path, "%s: after all endpoints failed the last network error is returned" % short, site=x["loc"], key="C44.exhausted|" + short)
        st = b.call_sites(["arc_swap::*::store"])
        ctx.check(len(st) == 1, "C44.store.site", b.path, "%s: one reordering store" % short, key="C44.store.site|" + short)
        for sb in st:
            e = call_expr(b, sb)
            ls = ctx.leaves(e[3][1]) if len(e[3]) > 1 else set()
            ok = has_all(ls, ["call:arc_swap::*::load", "call:*Clone::clone", "call:*::swap"]) and not has_leaf(ls, ["call:*Vec*::push", "call:*Vec*::remove", "call:*Vec*::retain", "call:*Vec*::truncate", "call:*Vec*::pop", "call:*Vec*::insert", "call:*Vec*::clear"])
            ctx.check(ok, "C44.store.permutation", b.path, "%s: the stored endpoints are a clone of the snapshot changed by swap only" % short, site=b.loc(sb), key="C44.store.permutation|" + short)
            require_guard(ctx, b, Cmp([["call:*Iterator*::next", "call:*Range*::next"]], ["lit:0"], pass_op="Gt", name="store only when a non-first endpoint succeeded"), "C44.store.non-first", targets=[sb], what="%s: reorder only when idx > 0" % short)
    stores = all_call_sites(ctx, ["celestia_grpc"], ["arc_swap::*::store", "arc_swap::*::swap", "arc_swap::*::rcu", "arc_swap::*::compare_and_swap"])
    inst_paths = {b.path for b in inst}
    bad = [b.path for b, blk in stores if b.path not in inst_paths]
    ctx.check(not bad, "C44.store.only-here", G, "the endpoint list is written only by the failover loops (other writers: %s)" % bad[:2], key="C44.store.only-here")
