"""C08 — The extended square is a two-dimensional erasure code (malformed-input clause)."""
from engine.rules import Cmp, Has, call_expr, call_result_honoured, call_sites_with, exit_sites, require_guard, walk
from engine.mir import has_all, has_leaf

T = "celestia_types::"
N = T + "eds::ExtendedDataSquare::new"
CLAUSE = (
    "Decides only the second sentence of the property (malformed input is rejected) over all CFG paths of "
    "ExtendedDataSquare::new: shares.len() >= MIN, <= max_extended_square_width(app_version)^2, width*width == len, "
    "width fits u16 and is a power of two (count_ones == 1); every share is built with `?` from Share::from_raw / "
    "Share::parity (size and format) selected by is_ods_square(row, col, width), `?`-validated for the app version, "
    "and compared with the previous namespace on BOTH a column pass and a row pass (two `?`-checked call sites of the "
    "per-share check, each feeding the previous share's namespace forward); from_ods rejects non-square input and "
    "returns through new."
)
NOT_DECIDED = "That rows and columns are Reed-Solomon codewords, the first-quadrant identity, and the order of the three encoding passes (behavioural; an order rule would also fire on equally valid formulations)."
ENGINES = "G (must-check incl. closure bodies), W (two checked passes)"
ASSUMPTIONS = ["leopard-codec is opaque"]


def run(ctx):
    f = ctx.anchor(N)
    if f:
        require_guard(ctx, f, Cmp(["len:a1"], ["const:*MIN_SHARES"], pass_op="Ge", name="shares.len() >= MIN_SHARES"), "C08.new.min")
        require_guard(ctx, f, Cmp(["len:a1"], ["call:*max_extended_square_width", "a3"], pass_op="Le", name="shares.len() <= max(app_version)^2"), "C08.new.max")
        require_guard(ctx, f, Cmp(["len:a1", "call:*sqrt"], ["len:a1"], pass_op="Eq", name="width*width == shares.len()"), "C08.new.square")
        require_guard(ctx, f, Has("call:*TryFrom*::try_from", "len:a1", name="width fits u16"), "C08.new.u16")
        require_guard(ctx, f, Cmp(["call:*count_ones", "len:a1"], ["lit:1"], pass_op="Eq", name="width is a power of two"), "C08.new.pow2")
        calls = [b for b in sorted(f.reachable_from([0])) if f.blocks[b]["t"]["k"] == "call" and (f.blocks[b]["t"].get("rf") or "").startswith(N + "::{closure#")]
        # the per-share check closure is the one calling Share::from_raw
        chk = None
        for p in ctx.facts.family(N)[1:]:
            cb = ctx.fn(p)
            if cb.call_sites(["*Share::from_raw"]) and cb.call_sites(["*Share::parity"]):
                chk = cb
        ctx.check(chk is not None, "C08.new.check-closure", f.path, "per-share check closure found", key="C08.new.check-closure")
        if chk is not None:
            sites = [b for b in calls if f.blocks[b]["t"].get("rf") == chk.path]
            ctx.check(len(sites) == 2, "C08.new.two-passes", f.path, "per-share check invoked on two passes (columns and rows): %d" % len(sites), key="C08.new.two-passes")
            axes = set()
            for b in sites:
                e = call_expr(f, b)
                ls = ctx.leaves(e)
                ctx.check(has_leaf(ls, "call:*Share::namespace"), "C08.new.prev-ns", f.path, "previous share's namespace is fed into the next check", site=f.loc(b), key="C08.new.prev-ns|%d" % sites.index(b))
                for n in walk(e):
                    if n[0] == "agg" and n[1].endswith("AxisType"):
                        axes.add(n[2])
            ctx.check(axes == {"Row", "Col"}, "C08.new.axes", f.path, "one pass per axis: %s" % sorted(axes), key="C08.new.axes")
            for i, b in enumerate(sites):
                call_result_honoured(ctx, f, b, "C08.new.checked", "?check_share result honoured on pass %d" % i)
            ctx.functions.add(chk.path)
            require_guard(ctx, chk, Has(["call:*Share::from_raw", "call:*Share::parity"], "shares", name="?Share::from_raw / Share::parity"), "C08.share.build")
            sw = [b for b in sorted(chk.reachable_from([0])) if chk.blocks[b]["t"]["k"] == "switch" and has_leaf(ctx.leaves(chk.switch_discr_expr(b)), "call:*is_ods_square")]
            ctx.check(bool(sw), "C08.share.quadrant", chk.path, "data/parity constructor chosen by is_ods_square(row, col, width)", key="C08.share.quadrant")
            require_guard(ctx, chk, Has("call:*Share::validate", "app_version", name="?share.validate(app_version)"), "C08.share.validate")
            require_guard(ctx, chk, Has("call:*is_some_and", "closure:*", "call:*Share::namespace", name="namespace order against previous share"), "C08.share.order")
            inner = [ctx.fn(p) for p in ctx.facts.family(chk.path)[1:]]
            ok = False
            for cb in inner:
                for x in exit_sites(cb):
                    for n in walk(x["expr"]):
                        if n[0] == "call" and n[2].endswith("PartialOrd::lt") and has_leaf(ctx.leaves(n), "call:*Share::namespace"):
                            ok = True
            ctx.check(ok, "C08.share.order-cmp", chk.path, "order predicate is share.namespace() < prev_ns", key="C08.share.order-cmp")
    o = ctx.anchor(T + "eds::ExtendedDataSquare::from_ods")
    if o:
        require_guard(ctx, o, Cmp(["len:a1", "call:*sqrt"], ["len:a1"], pass_op="Eq", name="ods is square", local_only=True), "C08.from_ods.square")
        ex = [x for x in exit_sites(o) if x["kind"] in ("accept", "may")]
        ok = bool(ex) and all(x["kind"] == "may" and has_all(ctx.leaves(x["expr"]), ["call:" + N, "a2"]) for x in ex)
        ctx.check(ok, "C08.from_ods.through-new", o.path, "result is returned through ExtendedDataSquare::new(.., app_version)", key="C08.from_ods.through-new")
        for i, b in enumerate(call_sites_with(ctx, o, ["leopard_codec::encode"])):
            call_result_honoured(ctx, o, b, "C08.from_ods.encode-checked", "?leopard_codec::encode (pass %d)" % i)
