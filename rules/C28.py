"""C28 — Header-ex client accepts only well-formed, validated responses."""
from engine.rules import Cmp, Guards, Has, call_expr, call_sites_with, exit_sites, per_iteration, require_guard
from engine.mir import has_all, has_leaf

C = "lumina_node::p2p::header_ex::client::"
U = "lumina_node::p2p::header_ex::utils::"
CLAUSE = (
    "Decides over all CFG paths of decode_and_verify_responses: an empty response list and a list longer than the "
    "requested amount are rejected; every header that is kept comes from to_validated_extented_header (which returns "
    "Ok only from ExtendedHeader::decode_and_validate of an OK-status response); every accepting exit is past the "
    "dispatch on (request.data, headers.len()) whose default arm rejects; the by-height arm compares every kept "
    "header's height with start + position, the by-hash arm compares the header's hash with the requested one; "
    "HeaderRequestExt::is_valid rejects a missing payload, a zero amount, a head request for more than one header and "
    "a malformed / multi-header hash request."
)
NOT_DECIDED = "That well-formed responses are accepted; chain verification (done by the callers, C27/C38)."
ENGINES = "G (must-check, per-iteration)"
ASSUMPTIONS = []


def run(ctx):
    f = ctx.anchor(C + "decode_and_verify_responses")
    if f:
        require_guard(ctx, f, Has("len:responses", name="empty response list rejected"), "C28.nonempty")
        require_guard(ctx, f, Cmp(["len:responses"], ["request.amount"], pass_op="Le", name="responses.len() <= requested amount"), "C28.amount")
        push = call_sites_with(ctx, f, ["*Vec*::push"])
        ok = bool(push) and all(has_leaf(ctx.leaves(call_expr(f, b)), "call:*HeaderResponseExt*::to_validated_extented_header") for b in push)
        ctx.check(ok, "C28.validated-only", f.path, "only headers returned by to_validated_extented_header are kept", key="C28.validated-only")
        require_guard(ctx, f, Has("request.data", name="dispatch on (request.data, headers.len()) with a rejecting default"), "C28.dispatch")
        g = Guards(ctx, f)
        gl = [ctx.leaves(f.switch_discr_expr(b)) for b, fl, ps in g.switches]
        ctx.check(any(has_all(l, ["call:*ExtendedHeader::hash", "request.data"]) for l in gl), "C28.by-hash", f.path, "by-hash arm rejects a header with another hash", key="C28.by-hash")
        # the by-height comparison runs for every kept header
        # the checking loop runs over the expected heights (zip with start..start+n) or over the kept headers
        from engine.rules import loop_heads as _lh
        it_pats = ["request.data"] if _lh(ctx, f, ["request.data"]) else ["call:*HeaderResponseExt*::to_validated_extented_header"]
        per_ok = per_iteration(ctx, f, it_pats, Cmp(["call:*ExtendedHeader::height"], ["request.data"], pass_op="Eq", name="header.height() == start + i"), "C28.by-height.each", "by-height arm: every kept header is compared with its expected height", must_dominate=False)
    t = ctx.anchor("<celestia_proto::p2p::pb::HeaderResponse as lumina_node::p2p::header_ex::utils::HeaderResponseExt>::to_validated_extented_header", main=False)
    if t:
        require_guard(ctx, t, Has("call:*HeaderResponse::status_code", "a1", name="non-OK status rejected"), "C28.status")
        ex = [x for x in exit_sites(t) if x["kind"] in ("accept", "may")]
        ok = bool(ex) and all(has_all(ctx.leaves(x["expr"]), ["call:*ExtendedHeader::decode_and_validate", "a1.body"]) for x in ex)
        ctx.check(ok, "C28.decode-and-validate", t.path, "accepted header = ExtendedHeader::decode_and_validate(body)", key="C28.decode-and-validate")
    v = ctx.anchor("<celestia_proto::p2p::pb::HeaderRequest as lumina_node::p2p::header_ex::utils::HeaderRequestExt>::is_valid", main=False)
    if v:
        require_guard(ctx, v, Has("a1.data", name="payload/amount table with rejecting rows"), "C28.valid.table")
        require_guard(ctx, v, Has("a1.amount", name="amount checked"), "C28.valid.amount")
        rej = [x for x in exit_sites(v) if x["kind"] == "reject"]
        ctx.check(len(rej) >= 2, "C28.valid.rejects", v.path, "rejecting rows present: %d" % len(rej), key="C28.valid.rejects")
