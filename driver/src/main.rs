// lumina-facts: a rustc_private driver that exports, for every body of an allow-listed
// crate, the pre-borrowck MIR (mir_promoted) plus ADT / impl / const facts as JSON.
// It never runs the analysed code. It is injected with RUSTC_WORKSPACE_WRAPPER.
#![feature(rustc_private)]
#![allow(clippy::all)]

extern crate rustc_abi;
extern crate rustc_driver;
extern crate rustc_hir;
extern crate rustc_interface;
extern crate rustc_middle;
extern crate rustc_session;
extern crate rustc_span;

use std::fmt::Write as _;

use rustc_driver::{Callbacks, Compilation};
use rustc_hir::def::DefKind;
use rustc_hir::def_id::{DefId, LocalDefId};
use rustc_interface::interface::Compiler;
use rustc_middle::mir::{
    AggregateKind, AssertKind, BasicBlock, Body, Const, Operand, Place, ProjectionElem, Rvalue,
    StatementKind, TerminatorKind, UnwindAction,
};
use rustc_middle::ty::print::{with_crate_prefix, with_no_trimmed_paths, with_no_visible_paths};
use rustc_middle::ty::{self, Instance, Ty, TyCtxt, TypingEnv};
use rustc_span::Span;

// ---------------------------------------------------------------- JSON helpers

fn esc(s: &str, out: &mut String) {
    out.push('"');
    for c in s.chars() {
        match c {
            '"' => out.push_str("\\\""),
            '\\' => out.push_str("\\\\"),
            '\n' => out.push_str("\\n"),
            '\r' => out.push_str("\\r"),
            '\t' => out.push_str("\\t"),
            c if (c as u32) < 0x20 => {
                let _ = write!(out, "\\u{:04x}", c as u32);
            }
            c => out.push(c),
        }
    }
    out.push('"');
}

fn jstr(s: &str) -> String {
    let mut o = String::with_capacity(s.len() + 2);
    esc(s, &mut o);
    o
}

fn trunc(mut s: String, n: usize) -> String {
    if s.len() > n {
        let mut k = n;
        while !s.is_char_boundary(k) {
            k -= 1;
        }
        s.truncate(k);
        s.push('…');
    }
    s
}

// ---------------------------------------------------------------- context

struct Cx<'tcx, 'a> {
    tcx: TyCtxt<'tcx>,
    body: &'a Body<'tcx>,
    def: LocalDefId,
    tenv: TypingEnv<'tcx>,
    file: String,
}

static CRATE: std::sync::OnceLock<String> = std::sync::OnceLock::new();

// `crate::` (as printed by with_crate_prefix!) -> `<crate name>::`
fn qualify(s: String) -> String {
    if !s.contains("crate::") {
        return s;
    }
    let name = CRATE.get().cloned().unwrap_or_default();
    let mut out = String::with_capacity(s.len() + 16);
    let bytes = s.as_bytes();
    let mut i = 0;
    while i < bytes.len() {
        if s[i..].starts_with("crate::") {
            let prev_ok = i == 0 || {
                let c = bytes[i - 1] as char;
                !(c.is_alphanumeric() || c == '_')
            };
            if prev_ok {
                out.push_str(&name);
                out.push_str("::");
                i += 7;
                continue;
            }
        }
        let ch = s[i..].chars().next().unwrap();
        out.push(ch);
        i += ch.len_utf8();
    }
    out
}

static WORKSPACE: std::sync::OnceLock<Vec<String>> = std::sync::OnceLock::new();

fn path_of(tcx: TyCtxt<'_>, did: DefId) -> String {
    // canonical definition paths everywhere (no shortest-visible re-export): a callee seen
    // from another crate names the same string as the body exported by its own crate, and
    // type arguments inside impl paths are printed the same way in every crate
    qualify(with_no_visible_paths!(with_crate_prefix!(with_no_trimmed_paths!(tcx.def_path_str(did)))))
}

fn ty_str(ty: Ty<'_>) -> String {
    trunc(qualify(with_no_visible_paths!(with_crate_prefix!(with_no_trimmed_paths!(ty.to_string())))), 400)
}

fn span_loc(tcx: TyCtxt<'_>, span: Span) -> (String, usize) {
    let sp = span.source_callsite();
    let sm = tcx.sess.source_map();
    let loc = sm.lookup_char_pos(sp.lo());
    let name = format!("{}", loc.file.name.prefer_local_unconditionally());
    (name, loc.line)
}

fn span_json(cx: &Cx<'_, '_>, span: Span, out: &mut String) {
    let (f, l) = span_loc(cx.tcx, span);
    if f == cx.file {
        let _ = write!(out, "{}", l);
    } else {
        esc(&format!("{}:{}", f, l), out);
    }
}

fn expn_json(span: Span, out: &mut String) {
    // list of expansion kinds from innermost to outermost
    if !span.from_expansion() {
        out.push_str("null");
        return;
    }
    let mut names: Vec<String> = Vec::new();
    let mut sp = span;
    let mut guard = 0;
    while sp.from_expansion() && guard < 8 {
        let ed = sp.ctxt().outer_expn_data();
        let n = match ed.kind {
            rustc_span::ExpnKind::Root => "root".to_string(),
            rustc_span::ExpnKind::Macro(_, sym) => format!("macro:{}", sym),
            rustc_span::ExpnKind::AstPass(p) => format!("astpass:{:?}", p),
            rustc_span::ExpnKind::Desugaring(d) => format!("desugar:{:?}", d),
        };
        names.push(n);
        sp = ed.call_site;
        guard += 1;
    }
    esc(&names.join(">"), out);
}

// ---------------------------------------------------------------- MIR export

fn place_json<'tcx>(cx: &Cx<'tcx, '_>, place: &Place<'tcx>, out: &mut String) {
    let tcx = cx.tcx;
    let _ = write!(out, "{{\"l\":{}", place.local.as_usize());
    if !place.projection.is_empty() {
        out.push_str(",\"p\":[");
        let mut pty = rustc_middle::mir::PlaceTy::from_ty(cx.body.local_decls[place.local].ty);
        let mut first = true;
        for elem in place.projection.iter() {
            if !first {
                out.push(',');
            }
            first = false;
            match elem {
                ProjectionElem::Deref => out.push_str("\"*\""),
                ProjectionElem::Field(f, _) => {
                    let name = match pty.ty.kind() {
                        ty::Adt(adt, _) => {
                            let v = pty.variant_index.unwrap_or(rustc_abi::FIRST_VARIANT);
                            if adt.is_enum() || adt.is_struct() || adt.is_union() {
                                adt.variant(v)
                                    .fields
                                    .get(f)
                                    .map(|fd| fd.name.to_string())
                                    .unwrap_or_else(|| f.index().to_string())
                            } else {
                                f.index().to_string()
                            }
                        }
                        _ => f.index().to_string(),
                    };
                    let _ = write!(out, "[\"f\",{},{}]", f.index(), jstr(&name));
                }
                ProjectionElem::Index(l) => {
                    let _ = write!(out, "[\"i\",{}]", l.as_usize());
                }
                ProjectionElem::ConstantIndex { offset, min_length, from_end } => {
                    let _ = write!(out, "[\"ci\",{},{},{}]", offset, min_length, from_end);
                }
                ProjectionElem::Subslice { from, to, from_end } => {
                    let _ = write!(out, "[\"sub\",{},{},{}]", from, to, from_end);
                }
                ProjectionElem::Downcast(name, idx) => {
                    let n = name.map(|s| s.to_string()).unwrap_or_default();
                    let _ = write!(out, "[\"dc\",{},{}]", jstr(&n), idx.as_usize());
                }
                _ => out.push_str("\"?\""),
            }
            pty = pty.projection_ty(tcx, elem);
        }
        out.push(']');
    }
    out.push('}');
}

fn const_json<'tcx>(cx: &Cx<'tcx, '_>, c: &Const<'tcx>, out: &mut String) {
    let tcx = cx.tcx;
    let ty = c.ty();
    out.push_str("{\"c\":1");
    match ty.kind() {
        ty::FnDef(did, args) => {
            let _ = write!(out, ",\"fn\":{}", jstr(&path_of(tcx, *did)));
            let a = trunc(qualify(with_no_visible_paths!(with_crate_prefix!(with_no_trimmed_paths!(format!("{:?}", args))))), 240);
            let _ = write!(out, ",\"ga\":{}", jstr(&a));
        }
        _ => {
            let _ = write!(out, ",\"ty\":{}", jstr(&ty_str(ty)));
            if let Const::Unevaluated(uv, _) = c {
                if uv.promoted.is_none() {
                    let _ = write!(out, ",\"cdef\":{}", jstr(&path_of(tcx, uv.def)));
                } else {
                    out.push_str(",\"promoted\":1");
                }
            }
            let is_scalar = ty.is_integral() || ty.is_bool() || ty.is_char();
            let mut done = false;
            if is_scalar {
                if let Some(si) = c.try_eval_scalar_int(tcx, cx.tenv) {
                    let size = si.size();
                    let bits = si.to_bits(size);
                    if ty.is_signed() {
                        let v = size.sign_extend(bits) as i128;
                        let _ = write!(out, ",\"v\":{}", v);
                    } else {
                        let _ = write!(out, ",\"v\":{}", bits);
                    }
                    done = true;
                }
            }
            if !done {
                let s = trunc(qualify(with_crate_prefix!(with_no_trimmed_paths!(format!("{}", c)))), 200);
                let _ = write!(out, ",\"s\":{}", jstr(&s));
            }
        }
    }
    out.push('}');
}

fn operand_json<'tcx>(cx: &Cx<'tcx, '_>, op: &Operand<'tcx>, out: &mut String) {
    match op {
        Operand::Copy(p) => {
            out.push_str("{\"cp\":");
            place_json(cx, p, out);
            out.push('}');
        }
        Operand::Move(p) => {
            out.push_str("{\"mv\":");
            place_json(cx, p, out);
            out.push('}');
        }
        Operand::Constant(c) => const_json(cx, &c.const_, out),
        #[allow(unreachable_patterns)]
        _ => out.push_str("{\"unk\":1}"),
    }
}

fn rvalue_json<'tcx>(cx: &Cx<'tcx, '_>, rv: &Rvalue<'tcx>, out: &mut String) {
    let tcx = cx.tcx;
    match rv {
        Rvalue::Use(op, ..) => {
            out.push_str("{\"k\":\"use\",\"a\":");
            operand_json(cx, op, out);
            out.push('}');
        }
        Rvalue::Repeat(op, n) => {
            out.push_str("{\"k\":\"repeat\",\"a\":");
            operand_json(cx, op, out);
            let _ = write!(out, ",\"n\":{}}}", jstr(&format!("{}", n)));
        }
        Rvalue::Ref(_, bk, p) => {
            let m = matches!(bk, rustc_middle::mir::BorrowKind::Mut { .. });
            let _ = write!(out, "{{\"k\":\"ref\",\"mut\":{},\"p\":", m);
            place_json(cx, p, out);
            out.push('}');
        }
        Rvalue::RawPtr(kind, p) => {
            let m = format!("{:?}", kind).contains("Mut");
            let _ = write!(out, "{{\"k\":\"rawptr\",\"mut\":{},\"p\":", m);
            place_json(cx, p, out);
            out.push('}');
        }
        Rvalue::ThreadLocalRef(did) => {
            let _ = write!(out, "{{\"k\":\"tls\",\"def\":{}}}", jstr(&path_of(tcx, *did)));
        }
        Rvalue::Cast(kind, op, ty) => {
            let _ = write!(
                out,
                "{{\"k\":\"cast\",\"ck\":{},\"ty\":{},\"a\":",
                jstr(&trunc(format!("{:?}", kind), 60)),
                jstr(&ty_str(*ty))
            );
            operand_json(cx, op, out);
            out.push('}');
        }
        Rvalue::BinaryOp(op, ab) => {
            let _ = write!(out, "{{\"k\":\"bin\",\"op\":{},\"a\":", jstr(&format!("{:?}", op)));
            operand_json(cx, &ab.0, out);
            out.push_str(",\"b\":");
            operand_json(cx, &ab.1, out);
            out.push('}');
        }
        Rvalue::UnaryOp(op, a) => {
            let _ = write!(out, "{{\"k\":\"un\",\"op\":{},\"a\":", jstr(&format!("{:?}", op)));
            operand_json(cx, a, out);
            out.push('}');
        }
        Rvalue::Discriminant(p) => {
            out.push_str("{\"k\":\"discr\",\"p\":");
            place_json(cx, p, out);
            out.push('}');
        }
        Rvalue::Aggregate(kind, ops) => {
            out.push_str("{\"k\":\"agg\"");
            match &**kind {
                AggregateKind::Array(_) => out.push_str(",\"ak\":\"array\""),
                AggregateKind::Tuple => out.push_str(",\"ak\":\"tuple\""),
                AggregateKind::Adt(did, vidx, _, _, active) => {
                    let adt = tcx.adt_def(*did);
                    let v = adt.variant(*vidx);
                    let _ = write!(
                        out,
                        ",\"ak\":\"adt\",\"adt\":{},\"variant\":{},\"vi\":{}",
                        jstr(&path_of(tcx, *did)),
                        jstr(&v.name.to_string()),
                        vidx.as_usize()
                    );
                    out.push_str(",\"fields\":[");
                    if let Some(a) = active {
                        out.push_str(&jstr(&v.fields[*a].name.to_string()));
                    } else {
                        let mut first = true;
                        for f in v.fields.iter() {
                            if !first {
                                out.push(',');
                            }
                            first = false;
                            out.push_str(&jstr(&f.name.to_string()));
                        }
                    }
                    out.push(']');
                }
                AggregateKind::Closure(did, _) => {
                    let _ = write!(out, ",\"ak\":\"closure\",\"def\":{}", jstr(&path_of(tcx, *did)));
                }
                AggregateKind::Coroutine(did, _) => {
                    let _ =
                        write!(out, ",\"ak\":\"coroutine\",\"def\":{}", jstr(&path_of(tcx, *did)));
                }
                AggregateKind::CoroutineClosure(did, _) => {
                    let _ = write!(
                        out,
                        ",\"ak\":\"coroutine_closure\",\"def\":{}",
                        jstr(&path_of(tcx, *did))
                    );
                }
                AggregateKind::RawPtr(..) => out.push_str(",\"ak\":\"rawptr\""),
            }
            out.push_str(",\"ops\":[");
            let mut first = true;
            for o in ops.iter() {
                if !first {
                    out.push(',');
                }
                first = false;
                operand_json(cx, o, out);
            }
            out.push_str("]}");
        }
        Rvalue::CopyForDeref(p) => {
            out.push_str("{\"k\":\"use\",\"a\":{\"cp\":");
            place_json(cx, p, out);
            out.push_str("}}");
        }
        other => {
            let s = trunc(format!("{:?}", other), 200);
            let _ = write!(out, "{{\"k\":\"other\",\"s\":{}}}", jstr(&s));
        }
    }
}

fn bb(b: BasicBlock) -> usize {
    b.as_usize()
}

fn unwind_json(u: &UnwindAction, out: &mut String) {
    match u {
        UnwindAction::Cleanup(b) => {
            let _ = write!(out, "{}", bb(*b));
        }
        _ => out.push_str("null"),
    }
}

fn assert_msg_json<'tcx>(cx: &Cx<'tcx, '_>, msg: &AssertKind<Operand<'tcx>>, out: &mut String) {
    match msg {
        AssertKind::BoundsCheck { len, index } => {
            out.push_str("{\"ak\":\"BoundsCheck\",\"len\":");
            operand_json(cx, len, out);
            out.push_str(",\"index\":");
            operand_json(cx, index, out);
            out.push('}');
        }
        AssertKind::Overflow(op, a, b) => {
            let _ = write!(out, "{{\"ak\":\"Overflow\",\"op\":{},\"a\":", jstr(&format!("{:?}", op)));
            operand_json(cx, a, out);
            out.push_str(",\"b\":");
            operand_json(cx, b, out);
            out.push('}');
        }
        AssertKind::OverflowNeg(a) => {
            out.push_str("{\"ak\":\"OverflowNeg\",\"a\":");
            operand_json(cx, a, out);
            out.push('}');
        }
        AssertKind::DivisionByZero(a) => {
            out.push_str("{\"ak\":\"DivisionByZero\",\"a\":");
            operand_json(cx, a, out);
            out.push('}');
        }
        AssertKind::RemainderByZero(a) => {
            out.push_str("{\"ak\":\"RemainderByZero\",\"a\":");
            operand_json(cx, a, out);
            out.push('}');
        }
        other => {
            let s = trunc(format!("{:?}", other), 80);
            let name = s.split(|c: char| !c.is_alphanumeric()).next().unwrap_or("Other").to_string();
            let _ = write!(out, "{{\"ak\":{}}}", jstr(&name));
        }
    }
}

struct ConstCollector<'tcx> {
    tcx: TyCtxt<'tcx>,
    found: Vec<String>,
}

impl<'tcx> rustc_middle::mir::visit::Visitor<'tcx> for ConstCollector<'tcx> {
    fn visit_const_operand(&mut self, c: &rustc_middle::mir::ConstOperand<'tcx>, _loc: rustc_middle::mir::Location) {
        match c.const_ {
            Const::Unevaluated(uv, _) if uv.promoted.is_none() => {
                self.found.push(path_of(self.tcx, uv.def));
            }
            _ => {
                if let ty::FnDef(did, _) = c.const_.ty().kind() {
                    self.found.push(format!("fn:{}", path_of(self.tcx, *did)));
                } else if let Some(si) = c.const_.try_to_scalar_int() {
                    let size = si.size();
                    self.found.push(format!("lit:{}", si.to_bits(size)));
                }
            }
        }
    }
}

fn promoted_json<'tcx>(tcx: TyCtxt<'tcx>, def: LocalDefId, out: &mut String) {
    use rustc_middle::mir::visit::Visitor;
    let (_, promoted) = tcx.mir_promoted(def);
    let promoted = promoted.borrow();
    out.push_str(",\"promoted\":[");
    let mut first = true;
    for pb in promoted.iter() {
        if !first {
            out.push(',');
        }
        first = false;
        let mut cc = ConstCollector { tcx, found: Vec::new() };
        cc.visit_body(pb);
        out.push('[');
        let mut f2 = true;
        for s in cc.found.iter() {
            if !f2 {
                out.push(',');
            }
            f2 = false;
            out.push_str(&jstr(s));
        }
        out.push(']');
    }
    out.push(']');
}

fn body_json<'tcx>(tcx: TyCtxt<'tcx>, def: LocalDefId, body: &Body<'tcx>, out: &mut String) {
    let did = def.to_def_id();
    let kind = tcx.def_kind(did);
    let (file, line) = span_loc(tcx, body.span);
    let cx = Cx { tcx, body, def, tenv: TypingEnv::post_analysis(tcx, did), file: file.clone() };
    let _ = cx.def;
    let path = path_of(tcx, did);
    let _ = write!(out, "{{\"path\":{},\"kind\":{}", jstr(&path), jstr(&format!("{:?}", kind)));
    // parent (for closures: the enclosing fn-like item)
    let tr = tcx.typeck_root_def_id(did);
    if tr != did {
        let _ = write!(out, ",\"root\":{}", jstr(&path_of(tcx, tr)));
    }
    let _ = write!(out, ",\"file\":{},\"line\":{}", jstr(&file), line);
    if matches!(kind, DefKind::Fn | DefKind::AssocFn) {
        let vis = tcx.visibility(did);
        let v = if vis.is_public() { "pub".to_string() } else { format!("{:?}", vis) };
        let _ = write!(out, ",\"vis\":{}", jstr(&trunc(v, 120)));
        let sig = tcx.fn_sig(did).skip_binder();
        let _ = write!(out, ",\"unsafe\":{}", !sig.safety().is_safe());
        let _ = write!(out, ",\"async\":{}", tcx.asyncness(did).is_async());
        // impl / trait context
        if let Some(assoc) = tcx.opt_associated_item(did) {
            if let Some(trait_item) = assoc.trait_item_def_id() {
                let _ = write!(out, ",\"trait_item\":{}", jstr(&path_of(tcx, trait_item)));
            }
        }
    }
    if matches!(kind, DefKind::Closure) {
        // capture names, in field order of the closure environment
        out.push_str(",\"captures\":[");
        let mut first = true;
        for cap in tcx.closure_captures(def) {
            if !first {
                out.push(',');
            }
            first = false;
            out.push_str(&jstr(&cap.to_symbol().to_string()));
        }
        out.push(']');
        if let Some(ck) = tcx.coroutine_kind(did) {
            let _ = write!(out, ",\"coroutine\":{}", jstr(&trunc(format!("{:?}", ck), 60)));
        }
    }
    let _ = write!(out, ",\"argc\":{}", body.arg_count);
    promoted_json(tcx, def, out);
    // locals
    out.push_str(",\"locals\":[");
    let mut names: Vec<Option<String>> = vec![None; body.local_decls.len()];
    for vdi in body.var_debug_info.iter() {
        if let rustc_middle::mir::VarDebugInfoContents::Place(p) = &vdi.value {
            if p.projection.is_empty() {
                names[p.local.as_usize()] = Some(vdi.name.to_string());
            }
        }
    }
    for (i, ld) in body.local_decls.iter().enumerate() {
        if i > 0 {
            out.push(',');
        }
        let _ = write!(out, "[{}", jstr(&ty_str(ld.ty)));
        match &names[i] {
            Some(n) => {
                let _ = write!(out, ",{}", jstr(n));
            }
            None => out.push_str(",null"),
        }
        let _ = write!(out, ",{}]", if ld.is_user_variable() { 1 } else { 0 });
    }
    out.push(']');
    // debug info for captured upvars (place with projection)
    out.push_str(",\"dbg\":[");
    let mut first = true;
    for vdi in body.var_debug_info.iter() {
        if let rustc_middle::mir::VarDebugInfoContents::Place(p) = &vdi.value {
            if !p.projection.is_empty() {
                if !first {
                    out.push(',');
                }
                first = false;
                let _ = write!(out, "[{},", jstr(&vdi.name.to_string()));
                place_json(&cx, p, out);
                out.push(']');
            }
        }
    }
    out.push(']');
    // blocks
    out.push_str(",\"blocks\":[");
    for (bi, bd) in body.basic_blocks.iter_enumerated() {
        if bb(bi) > 0 {
            out.push(',');
        }
        let _ = write!(out, "{{\"cl\":{},\"st\":[", if bd.is_cleanup { 1 } else { 0 });
        let mut first = true;
        for st in bd.statements.iter() {
            match &st.kind {
                StatementKind::Assign(bx) => {
                    let (pl, rv) = &**bx;
                    if !first {
                        out.push(',');
                    }
                    first = false;
                    out.push_str("{\"d\":");
                    place_json(&cx, pl, out);
                    out.push_str(",\"r\":");
                    rvalue_json(&cx, rv, out);
                    out.push_str(",\"s\":");
                    span_json(&cx, st.source_info.span, out);
                    if st.source_info.span.from_expansion() {
                        out.push_str(",\"x\":");
                        expn_json(st.source_info.span, out);
                    }
                    out.push('}');
                }
                StatementKind::SetDiscriminant { place, variant_index } => {
                    if !first {
                        out.push(',');
                    }
                    first = false;
                    out.push_str("{\"d\":");
                    place_json(&cx, place, out);
                    let _ = write!(
                        out,
                        ",\"r\":{{\"k\":\"setdiscr\",\"vi\":{}}},\"s\":",
                        variant_index.as_usize()
                    );
                    span_json(&cx, st.source_info.span, out);
                    out.push('}');
                }
                StatementKind::StorageDead(l) => {
                    if !first {
                        out.push(',');
                    }
                    first = false;
                    let _ = write!(out, "{{\"dead\":{}}}", l.as_usize());
                }
                _ => {}
            }
        }
        out.push_str("],\"t\":");
        let term = bd.terminator();
        let sp = term.source_info.span;
        match &term.kind {
            TerminatorKind::Goto { target } => {
                let _ = write!(out, "{{\"k\":\"goto\",\"to\":{}", bb(*target));
            }
            TerminatorKind::SwitchInt { discr, targets } => {
                out.push_str("{\"k\":\"switch\",\"d\":");
                operand_json(&cx, discr, out);
                let dty = discr.ty(&body.local_decls, tcx);
                let _ = write!(out, ",\"dty\":{}", jstr(&ty_str(dty)));
                out.push_str(",\"targets\":[");
                let mut first = true;
                for (v, t) in targets.iter() {
                    if !first {
                        out.push(',');
                    }
                    first = false;
                    let _ = write!(out, "[{},{}]", v, bb(t));
                }
                let _ = write!(out, "],\"otherwise\":{}", bb(targets.otherwise()));
            }
            TerminatorKind::UnwindResume => out.push_str("{\"k\":\"resume\""),
            TerminatorKind::UnwindTerminate(_) => out.push_str("{\"k\":\"terminate\""),
            TerminatorKind::Return => out.push_str("{\"k\":\"return\""),
            TerminatorKind::Unreachable => out.push_str("{\"k\":\"unreachable\""),
            TerminatorKind::Drop { place, target, unwind, .. } => {
                out.push_str("{\"k\":\"drop\",\"p\":");
                place_json(&cx, place, out);
                let _ = write!(out, ",\"to\":{},\"uw\":", bb(*target));
                unwind_json(unwind, out);
            }
            TerminatorKind::Call { func, args, destination, target, unwind, fn_span, .. } => {
                out.push_str("{\"k\":\"call\"");
                if let Some((cdid, gargs)) = func.const_fn_def() {
                    let _ = write!(out, ",\"f\":{}", jstr(&path_of(tcx, cdid)));
                    let a = trunc(qualify(with_no_visible_paths!(with_crate_prefix!(with_no_trimmed_paths!(format!("{:?}", gargs))))), 240);
                    let _ = write!(out, ",\"ga\":{}", jstr(&a));
                    // resolved callee
                    match Instance::try_resolve(tcx, cx.tenv, cdid, gargs) {
                        Ok(Some(inst)) => {
                            let rd = inst.def_id();
                            let rp = path_of(tcx, rd);
                            let _ = write!(out, ",\"rf\":{}", jstr(&rp));
                            let ik = trunc(format!("{:?}", inst.def), 40);
                            let ikn = ik
                                .split(|c: char| !c.is_alphanumeric())
                                .next()
                                .unwrap_or("")
                                .to_string();
                            let _ = write!(out, ",\"ik\":{}", jstr(&ikn));
                            let _ = write!(out, ",\"local\":{}", rd.is_local());
                        }
                        _ => {
                            out.push_str(",\"rf\":null");
                        }
                    }
                    // trait method?
                    if let Some(assoc) = tcx.opt_associated_item(cdid) {
                        if let Some(tr) = tcx.trait_of_assoc(cdid) {
                            let _ = write!(out, ",\"trait\":{}", jstr(&path_of(tcx, tr)));
                            if gargs.len() > 0 {
                                if let Some(t0) = gargs[0].as_type() {
                                    let _ = write!(out, ",\"self_ty\":{}", jstr(&ty_str(t0)));
                                }
                            }
                        } else if let Some(imp) = tcx.impl_of_assoc(cdid) {
                            let st = tcx.type_of(imp).skip_binder();
                            let _ = write!(out, ",\"self_ty\":{}", jstr(&ty_str(st)));
                        }
                        let _ = assoc;
                    }
                } else {
                    out.push_str(",\"fop\":");
                    operand_json(&cx, func, out);
                    let fty = func.ty(&body.local_decls, tcx);
                    let _ = write!(out, ",\"fty\":{}", jstr(&ty_str(fty)));
                }
                out.push_str(",\"args\":[");
                let mut first = true;
                for a in args.iter() {
                    if !first {
                        out.push(',');
                    }
                    first = false;
                    operand_json(&cx, &a.node, out);
                }
                out.push_str("],\"dest\":");
                place_json(&cx, destination, out);
                match target {
                    Some(t) => {
                        let _ = write!(out, ",\"to\":{}", bb(*t));
                    }
                    None => out.push_str(",\"to\":null"),
                }
                out.push_str(",\"uw\":");
                unwind_json(unwind, out);
                out.push_str(",\"fs\":");
                span_json(&cx, *fn_span, out);
            }
            TerminatorKind::TailCall { func, args, .. } => {
                out.push_str("{\"k\":\"tailcall\"");
                if let Some((cdid, _)) = func.const_fn_def() {
                    let _ = write!(out, ",\"f\":{}", jstr(&path_of(tcx, cdid)));
                }
                out.push_str(",\"args\":[");
                let mut first = true;
                for a in args.iter() {
                    if !first {
                        out.push(',');
                    }
                    first = false;
                    operand_json(&cx, &a.node, out);
                }
                out.push(']');
            }
            TerminatorKind::Assert { cond, expected, msg, target, unwind } => {
                out.push_str("{\"k\":\"assert\",\"cond\":");
                operand_json(&cx, cond, out);
                let _ = write!(out, ",\"expected\":{},\"msg\":", expected);
                assert_msg_json(&cx, msg, out);
                let _ = write!(out, ",\"to\":{},\"uw\":", bb(*target));
                unwind_json(unwind, out);
            }
            TerminatorKind::Yield { value, resume, resume_arg, drop } => {
                out.push_str("{\"k\":\"yield\",\"v\":");
                operand_json(&cx, value, out);
                let _ = write!(out, ",\"to\":{},\"ra\":", bb(*resume));
                place_json(&cx, resume_arg, out);
                match drop {
                    Some(d) => {
                        let _ = write!(out, ",\"drop\":{}", bb(*d));
                    }
                    None => out.push_str(",\"drop\":null"),
                }
            }
            TerminatorKind::CoroutineDrop => out.push_str("{\"k\":\"coroutine_drop\""),
            TerminatorKind::FalseEdge { real_target, .. } => {
                let _ = write!(out, "{{\"k\":\"goto\",\"to\":{},\"false_edge\":1", bb(*real_target));
            }
            TerminatorKind::FalseUnwind { real_target, .. } => {
                let _ = write!(out, "{{\"k\":\"goto\",\"to\":{},\"false_unwind\":1", bb(*real_target));
            }
            TerminatorKind::InlineAsm { .. } => out.push_str("{\"k\":\"asm\""),
        }
        out.push_str(",\"s\":");
        span_json(&cx, sp, out);
        if sp.from_expansion() {
            out.push_str(",\"x\":");
            expn_json(sp, out);
        }
        out.push_str("}}");
    }
    out.push_str("]}");
}

// ---------------------------------------------------------------- crate-level facts

fn meta_json<'tcx>(tcx: TyCtxt<'tcx>, crate_name: &str, nbodies: usize, out: &mut String) {
    let _ = write!(out, "{{\"crate\":{},\"bodies\":{}", jstr(crate_name), nbodies);
    // ADTs, consts, fns without bodies, impls
    out.push_str(",\"adts\":[");
    let mut first = true;
    let items = tcx.hir_crate_items(());
    let mut consts: Vec<LocalDefId> = Vec::new();
    let mut impls: Vec<LocalDefId> = Vec::new();
    let mut fns: Vec<LocalDefId> = Vec::new();
    for def in items.definitions() {
        let did = def.to_def_id();
        match tcx.def_kind(did) {
            DefKind::Struct | DefKind::Enum | DefKind::Union => {
                let adt = tcx.adt_def(did);
                if !first {
                    out.push(',');
                }
                first = false;
                let vis = tcx.visibility(did);
                let _ = write!(
                    out,
                    "{{\"path\":{},\"kind\":{},\"pub\":{},\"variants\":[",
                    jstr(&path_of(tcx, did)),
                    jstr(&format!("{:?}", tcx.def_kind(did))),
                    vis.is_public()
                );
                let mut fv = true;
                for v in adt.variants().iter() {
                    if !fv {
                        out.push(',');
                    }
                    fv = false;
                    let _ = write!(out, "{{\"name\":{},\"fields\":[", jstr(&v.name.to_string()));
                    let mut ff = true;
                    for f in v.fields.iter() {
                        if !ff {
                            out.push(',');
                        }
                        ff = false;
                        let fty = tcx.type_of(f.did).skip_binder();
                        let fvis = tcx.visibility(f.did);
                        let vs = if fvis.is_public() {
                            "pub".to_string()
                        } else {
                            trunc(format!("{:?}", fvis), 120)
                        };
                        let _ = write!(
                            out,
                            "[{},{},{}]",
                            jstr(&f.name.to_string()),
                            jstr(&ty_str(fty)),
                            jstr(&vs)
                        );
                    }
                    out.push_str("]}");
                }
                out.push_str("]}");
            }
            DefKind::Const { .. } | DefKind::AssocConst { .. } => consts.push(def),
            DefKind::Impl { .. } => impls.push(def),
            DefKind::Fn | DefKind::AssocFn => fns.push(def),
            _ => {}
        }
    }
    out.push_str("],\"consts\":[");
    let mut first = true;
    for def in consts {
        let did = def.to_def_id();
        // only consts with no generics can be evaluated here
        let generics = tcx.generics_of(did);
        if generics.count() != 0 {
            continue;
        }
        // trait assoc const declarations without a value have no body
        if tcx.hir_maybe_body_owned_by(def).is_none() {
            continue;
        }
        let ty = tcx.type_of(did).skip_binder();
        if !first {
            out.push(',');
        }
        first = false;
        let _ = write!(out, "{{\"path\":{},\"ty\":{}", jstr(&path_of(tcx, did)), jstr(&ty_str(ty)));
        if ty.is_str() || matches!(ty.kind(), ty::Ref(_, inner, _) if inner.is_str()) {
            if let Ok(val) = tcx.const_eval_poly(did) {
                if let Some(bytes) = val.try_get_slice_bytes_for_diagnostics(tcx) {
                    if let Ok(sv) = std::str::from_utf8(bytes) {
                        let _ = write!(out, ",\"sv\":{}", jstr(sv));
                    }
                }
            }
        }
        if ty.is_integral() || ty.is_bool() || ty.is_char() {
            if let Ok(val) = tcx.const_eval_poly(did) {
                if let Some(si) = val.try_to_scalar_int() {
                    let size = si.size();
                    let bits = si.to_bits(size);
                    if ty.is_signed() {
                        let _ = write!(out, ",\"v\":{}", size.sign_extend(bits) as i128);
                    } else {
                        let _ = write!(out, ",\"v\":{}", bits);
                    }
                }
            }
        }
        out.push('}');
    }
    out.push_str("],\"impls\":[");
    let mut first = true;
    for def in impls {
        let did = def.to_def_id();
        if !first {
            out.push(',');
        }
        first = false;
        let self_ty = tcx.type_of(did).skip_binder();
        let _ = write!(out, "{{\"self_ty\":{}", jstr(&ty_str(self_ty)));
        if let Some(tr) = tcx.impl_opt_trait_ref(did) {
            let trr = tr.skip_binder();
            let _ = write!(out, ",\"trait\":{}", jstr(&path_of(tcx, trr.def_id)));
            let a = trunc(with_no_trimmed_paths!(format!("{:?}", trr.args)), 300);
            let _ = write!(out, ",\"targs\":{}", jstr(&a));
        }
        let _ = write!(
            out,
            ",\"derived\":{}",
            tcx.is_automatically_derived(did)
        );
        out.push_str(",\"items\":[");
        let mut fi = true;
        for it in tcx.associated_item_def_ids(did) {
            if !fi {
                out.push(',');
            }
            fi = false;
            out.push_str(&jstr(&path_of(tcx, *it)));
        }
        out.push_str("]}");
    }
    out.push_str("],\"fns\":[");
    let mut first = true;
    for def in fns {
        let did = def.to_def_id();
        if !first {
            out.push(',');
        }
        first = false;
        let vis = tcx.visibility(did);
        let v = if vis.is_public() { "pub".to_string() } else { trunc(format!("{:?}", vis), 120) };
        let sig = tcx.fn_sig(did).skip_binder();
        let s = trunc(qualify(with_crate_prefix!(with_no_trimmed_paths!(format!("{:?}", sig)))), 240);
        let _ = write!(
            out,
            "{{\"path\":{},\"vis\":{},\"unsafe\":{},\"sig\":{}}}",
            jstr(&path_of(tcx, did)),
            jstr(&v),
            !sig.safety().is_safe(),
            jstr(&s)
        );
    }
    out.push_str("]}");
}

// ---------------------------------------------------------------- driver

struct Extract {
    crate_name: String,
    out_dir: String,
}

impl Callbacks for Extract {
    fn after_expansion<'tcx>(&mut self, _c: &Compiler, tcx: TyCtxt<'tcx>) -> Compilation {
        let mut bodies = String::new();
        let mut index = String::from("{");
        let mut n = 0usize;
        let mut offset = 0usize;
        for def in tcx.hir_body_owners() {
            let did = def.to_def_id();
            let kind = tcx.def_kind(did);
            match kind {
                DefKind::Fn | DefKind::AssocFn | DefKind::Closure => {}
                _ => continue,
            }
            let (steal, _promoted) = tcx.mir_promoted(def);
            let body = steal.borrow();
            let mut line = String::new();
            body_json(tcx, def, &body, &mut line);
            line.push('\n');
            if n > 0 {
                index.push(',');
            }
            let _ = write!(index, "{}:[{},{}]", jstr(&path_of(tcx, did)), offset, line.len());
            offset += line.len();
            bodies.push_str(&line);
            n += 1;
        }
        index.push('}');
        let mut meta = String::new();
        meta_json(tcx, &self.crate_name, n, &mut meta);
        let base = format!("{}/{}", self.out_dir, self.crate_name);
        // one write per file per process
        std::fs::write(format!("{}.bodies.jsonl", base), bodies).expect("write bodies");
        std::fs::write(format!("{}.index.json", base), index).expect("write index");
        std::fs::write(format!("{}.meta.json", base), meta).expect("write meta");
        Compilation::Continue
    }
}

struct Passthrough;
impl Callbacks for Passthrough {}

fn main() {
    let mut args: Vec<String> = std::env::args().collect();
    // RUSTC_WORKSPACE_WRAPPER / RUSTC_WRAPPER: argv[1] is the real rustc path
    if args.len() > 1 && (args[1].ends_with("rustc") || args[1].contains("/rustc")) {
        args.remove(1);
    }
    let mut crate_name = String::new();
    let mut i = 0;
    while i < args.len() {
        if args[i] == "--crate-name" && i + 1 < args.len() {
            crate_name = args[i + 1].clone();
        }
        i += 1;
    }
    let allow = std::env::var("LUMINA_FACTS_CRATES").unwrap_or_default();
    let out_dir = std::env::var("LUMINA_FACTS_OUT").unwrap_or_default();
    let wanted = !out_dir.is_empty()
        && !crate_name.is_empty()
        && allow.split(',').any(|c| c == crate_name)
        && !args.iter().any(|a| a == "--print" || a.starts_with("--print="))
        && !args.iter().any(|a| a == "-vV");
    if wanted {
        let _ = CRATE.set(crate_name.clone());
        let _ = WORKSPACE.set(allow.split(',').map(|s| s.to_string()).collect());
        let mut cb = Extract { crate_name, out_dir };
        rustc_driver::run_compiler(&args, &mut cb);
    } else {
        let mut cb = Passthrough;
        rustc_driver::run_compiler(&args, &mut cb);
    }
}
