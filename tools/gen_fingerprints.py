#!/usr/bin/env python3
"""Regenerates tables/fn_fingerprints.json from the reference tree (/repo as pinned + fix commits):
for every function of the analysed crates its normalised signature and callee set. Used only to
recognise a *renamed* function (engine/facts.py: normalise_renames)."""
import gc
import json
import os
import sys

gc.disable()
HERE = os.path.dirname(os.path.dirname(os.path.abspath(__file__)))
sys.path.insert(0, HERE)
os.environ["LUMINA_NO_RENAMES"] = "1"
from engine import facts  # noqa: E402

F = facts.load(os.environ.get("LUMINA_REPO", "/repo"))
out = {}
for c in facts.CRATES:
    if c == "celestia_proto":
        continue
    out[c] = {}
    for p in F.fn_paths(c):
        sig, cal = facts.fn_fingerprint(F, p)
        out[c][p] = {"sig": sig, "callees": sorted(cal)}
json.dump(out, open(os.path.join(HERE, "tables", "fn_fingerprints.json"), "w"), indent=0, sort_keys=True)
print({c: len(v) for c, v in out.items()})
