#!/usr/bin/env python3
"""Regenerates tables/panic_audit.json from tables/panic_audit.src.json, whose entries are
authored by `file:line|kind[#n]` for convenience; the generated table is keyed by the
line-free stable key (module | kind | normalised operands) that the checks use."""
import sys, importlib, json, os
HERE = __file__.rsplit('/', 2)[0]
sys.path.insert(0, HERE)
from engine import facts
from engine.rules import Ctx
from engine.cone import Cone
from engine.panics import enumerate_sites, auto_discharge, stable_key
src = json.load(open(os.path.join(HERE, 'tables', 'panic_audit.src.json')))
F = facts.load(verbose=False)
ctx = Ctx('x', F)
out = {}
# keep every existing entry (line-free keys stay valid across edits elsewhere); the source
# file only adds or overrides entries for sites it can locate on the current tree
_old = os.path.join(HERE, 'tables', 'panic_audit.json')
if os.path.exists(_old):
    for e in json.load(open(_old)):
        out[e['key']] = e
missing = set(src.keys())
for prop in sys.argv[1:]:
    mod = importlib.import_module('rules.' + prop)
    cone = Cone(ctx, mod.ROOTS, stop=getattr(mod, 'STOP', ()))
    n = {}
    for s in enumerate_sites(ctx, cone):
        if auto_discharge(s):
            continue
        tag = "%s|%s" % (s.loc, s.kind)
        n[tag] = n.get(tag, 0) + 1
        t = tag + ('#%d' % n[tag] if n[tag] > 1 else '')
        e = src.get(t) or src.get(tag)
        if e is None:
            continue
        missing.discard(t); missing.discard(tag)
        k = stable_key(s)
        ent = dict(key=k, status=e['status'], reason=e['reason'], example_site=s.loc, kind=s.kind)
        if 'requires' in e:
            ent['requires'] = e['requires']
        if 'callers' in e:
            ent['callers'] = e['callers']
        out[k] = ent
json.dump(sorted(out.values(), key=lambda x: x['key']), open(os.path.join(HERE, 'tables', 'panic_audit.json'), 'w'), indent=1)
print('entries', len(out), 'unmatched source entries', sorted(missing))
