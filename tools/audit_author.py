#!/usr/bin/env python3
"""Regenerates tables/panic_audit.json from tables/panic_audit.src.json, whose entries are
authored by `file:line|kind[#n]` for convenience; the generated table is keyed by the
line-free stable key (module | kind | normalised operands) that the checks use."""
import sys, importlib, json, os
HERE = __file__.rsplit('/', 2)[0]
sys.path.insert(0, HERE)
from engine import facts
from engine.rules import Ctx
from engine.cone import Cone
from engine.panics import enumerate_sites, auto_discharge, stable_key
import re
DEPS = '--deps' in sys.argv
if DEPS:
    sys.argv.remove('--deps')
TABLE = 'panic_audit_deps' if DEPS else 'panic_audit'
src = json.load(open(os.path.join(HERE, 'tables', TABLE + '.src.json')))
F = facts.load(verbose=False)
if DEPS:
    F.load_deps()
ctx = Ctx('x', F)
out = {}
# keep every existing entry (line-free keys stay valid across edits elsewhere); the source
# file only adds or overrides entries for sites it can locate on the current tree
_old = os.path.join(HERE, 'tables', TABLE + '.json')
if os.path.exists(_old):
    for e in json.load(open(_old)):
        out[e['key']] = e
missing = set(src.keys())
for prop in sys.argv[1:]:
    mod = importlib.import_module('rules.' + prop)
    cone = Cone(ctx, mod.ROOTS, stop=getattr(mod, 'DEP_STOP' if DEPS else 'STOP', ()))
    n = {}
    for s in enumerate_sites(ctx, cone):
        if auto_discharge(s):
            continue
        if DEPS and F.crate_of(s.body.path) not in facts.DEP_CRATES:
            continue
        tag = "%s|%s" % (re.sub(r'^.*/registry/src/[^/]+/', '', s.loc), s.kind)
        n[tag] = n.get(tag, 0) + 1
        t = tag + ('#%d' % n[tag] if n[tag] > 1 else '')
        e = src.get(t) or src.get(tag)
        if e is None:
            continue
        missing.discard(t); missing.discard(tag)
        k = stable_key(s)
        ent = dict(key=k, status=e['status'], reason=e['reason'], example_site=re.sub(r'^.*/registry/src/[^/]+/', '', s.loc), kind=s.kind)
        if 'requires' in e:
            ent['requires'] = e['requires']
        if 'callers' in e:
            ent['callers'] = e['callers']
        out[k] = ent
json.dump(sorted(out.values(), key=lambda x: x['key']), open(os.path.join(HERE, 'tables', TABLE + '.json'), 'w'), indent=1)
print('entries', len(out), 'unmatched source entries', sorted(missing))
