#!/usr/bin/env python3
"""tools/add_seed.py <id> <prop[,prop]> <expected rule id[,..]> "<why>"  - copies /tmp/seed_out/<id> into seeded/<id> and writes check.json"""
import json, os, shutil, sys
HERE = os.path.dirname(os.path.dirname(os.path.abspath(__file__)))
sid, props, exp, why = sys.argv[1], sys.argv[2].split(","), sys.argv[3].split(","), sys.argv[4]
src = "/tmp/seed_out/" + sid
dst = os.path.join(HERE, "seeded", sid)
os.makedirs(dst, exist_ok=True)
for f in ("patch.diff", "demo.diff", "meta.json", "confirm.json"):
    if os.path.exists(os.path.join(src, f)):
        shutil.copy(os.path.join(src, f), dst)
json.dump({"props": props, "expect": exp, "patch": "seeded/%s/patch.diff" % sid, "why": "seeded by an independent sub-agent: " + why}, open(os.path.join(dst, "check.json"), "w"))
print(os.listdir(dst))
