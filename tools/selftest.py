#!/usr/bin/env python3
"""Checker self-validation on scratch copies of /repo (never on /repo itself).

  tools/selftest.py mutants  [--only C01,C02] [--name substr] [-j N]
  tools/selftest.py refactors [--only ...]
  tools/selftest.py one <file.json>

A mutant file (selftest/mutants/Cxx/<name>.json):
  {"props": ["C01"], "expect": ["C01.g5"], "why": "...",
   "edits": [{"file": "types/src/x.rs", "find": "exact text", "replace": "new text"}]}
must still compile; the named rule ids must appear among the reported violations.
A refactor file (selftest/refactors/<name>.json) is behaviour-preserving: the listed
properties must report exactly what they report on the unchanged tree.
Scratch copies live under a fresh mktemp dir outside /repo and /verif and are removed,
together with their fact files, as soon as the variant has been analysed."""
import argparse
import glob
import hashlib
import json
import os
import shutil
import subprocess
import sys
import tempfile

HERE = os.path.dirname(os.path.dirname(os.path.abspath(__file__)))
REPO = os.environ.get("LUMINA_REPO", "/repo")


def make_scratch():
    d = tempfile.mkdtemp(prefix="lumina-scratch-")
    # 24 = "some files vanished while copying" (git bookkeeping files of concurrent worktrees): harmless
    rc = subprocess.call(["rsync", "-a", "--exclude", "/target", "--exclude", "/.git/worktrees", REPO + "/", d + "/"])
    if rc not in (0, 24):
        raise RuntimeError("rsync of %s failed with %d" % (REPO, rc))
    return d


def apply_edits(d, edits):
    for e in edits:
        p = os.path.join(d, e["file"])
        s = open(p).read()
        n = s.count(e["find"])
        if n != e.get("count", 1):
            raise RuntimeError("edit does not apply: %r occurs %d times in %s" % (e["find"][:60], n, e["file"]))
        s = s.replace(e["find"], e["replace"])
        open(p, "w").write(s)


def facts_dir_for(repo):
    tag = hashlib.sha256(os.path.abspath(repo).encode()).hexdigest()[:10]
    return os.path.join(HERE, ".cache", "facts-" + tag)


def run_check(prop, repo):
    r = subprocess.run(
        [os.path.join(HERE, "check"), prop, "--repo", repo, "--no-evidence"],
        stdout=subprocess.PIPE,
        stderr=subprocess.PIPE,
        text=True,
        cwd=HERE,
    )
    rules = []
    for line in r.stdout.splitlines():
        line = line.strip()
        if line.startswith("violated rule "):
            rules.append(line.split()[2])
        if line.startswith("KNOWN-FINDING"):
            rules.append("KNOWN:" + line)
    return r.returncode, rules, r.stdout, r.stderr


ONLY = []


def run_variant(spec_path, kind):
    spec = json.load(open(spec_path))
    if ONLY:
        spec["props"] = [p for p in spec["props"] if p in ONLY] or spec["props"]
        if kind == "mutant":
            exp = [e for e in spec["expect"] if any(e.startswith(p) for p in spec["props"])]
            spec["expect"] = exp or spec["expect"]
    d = make_scratch()
    res = dict(file=os.path.relpath(spec_path, HERE), kind=kind, ok=False)
    try:
        try:
            apply_edits(d, spec.get("edits", []))
            if spec.get("patch"):
                pp = spec["patch"] if os.path.isabs(spec["patch"]) else os.path.join(HERE, spec["patch"])
                subprocess.check_call(["git", "-C", d, "apply", pp], stderr=subprocess.DEVNULL)
        except Exception as e:  # noqa
            res["error"] = str(e)
            res["skipped"] = "edit does not apply to this tree"
            return res
        out = {}
        for p in spec["props"]:
            rc, rules, so, se = run_check(p, d)
            out[p] = (rc, rules)
            if rc not in (0, 1, 2):
                res["error"] = "checker crashed (exit %d): %s" % (rc, se[-1200:])
                return res
            if rc == 2:
                res["error"] = "does not compile: " + se[-1500:]
                res["skipped"] = "variant does not compile on this tree"
                return res
        if kind == "mutant":
            got = [r for p in out for r in out[p][1] if not r.startswith("KNOWN:")]
            missing = [e for e in spec["expect"] if not any(g == e or g.startswith(e) for g in got)]
            res["got"] = got
            res["ok"] = not missing
            if spec.get("known_miss"):
                # a documented miss: the variant is kept in the corpus for the record; it passes
                # whether or not some rule happens to report it
                res["known_miss"] = True
                res["ok"] = True
            if missing:
                res["missing"] = missing
        else:
            base = spec.get("_baseline") or {}
            bad = {}
            for p in spec["props"]:
                b = base.get(p, [])
                if sorted(out[p][1]) != sorted(b):
                    bad[p] = dict(got=out[p][1], baseline=b)
            res["ok"] = not bad
            if bad:
                res["diff"] = bad
        return res
    except Exception as e:  # noqa
        res["error"] = str(e)
        return res
    finally:
        shutil.rmtree(d, ignore_errors=True)
        shutil.rmtree(facts_dir_for(d), ignore_errors=True)
        shutil.rmtree(facts_dir_for(d) + ".tmp", ignore_errors=True)
        try:
            os.unlink(facts_dir_for(d) + ".lock")
        except OSError:
            pass


def baseline(props):
    out = {}
    for p in props:
        rc, rules, so, se = run_check(p, REPO)
        out[p] = rules
    return out


def main():
    ap = argparse.ArgumentParser()
    ap.add_argument("mode", choices=["mutants", "refactors", "one", "all"])
    ap.add_argument("file", nargs="?")
    ap.add_argument("--only", default="")
    ap.add_argument("--name", default="")
    ap.add_argument("--json", default="")
    a = ap.parse_args()
    only = [x for x in a.only.split(",") if x]
    ONLY[:] = only
    files = []
    if a.mode == "one":
        kind = "refactor" if "/refactors/" in os.path.abspath(a.file) else "mutant"
        files = [(a.file, kind)]
    else:
        if a.mode in ("mutants", "all"):
            for f in sorted(glob.glob(os.path.join(HERE, "selftest", "mutants", "*", "*.json"))):
                files.append((f, "mutant"))
            for f in sorted(glob.glob(os.path.join(HERE, "seeded", "*", "check.json"))):
                files.append((f, "mutant"))
        if a.mode in ("refactors", "all"):
            for f in sorted(glob.glob(os.path.join(HERE, "selftest", "refactors", "*.json"))):
                files.append((f, "refactor"))
    results = []
    base_cache = {}
    for f, kind in files:
        spec = json.load(open(f))
        if only and not (set(only) & set(spec["props"])):
            continue
        if a.name and a.name not in f:
            continue
        if kind == "refactor":
            for p in spec["props"]:
                if p not in base_cache:
                    base_cache.update(baseline([p]))
            spec["_baseline"] = {p: base_cache[p] for p in spec["props"]}
            tmp = tempfile.NamedTemporaryFile("w", suffix=".json", delete=False)
            json.dump(spec, tmp)
            tmp.close()
            r = run_variant(tmp.name, kind)
            os.unlink(tmp.name)
            r["file"] = os.path.relpath(f, HERE)
        else:
            r = run_variant(f, kind)
        results.append(r)
        print(("PASS " if r["ok"] else "FAIL ") + r["file"] + ("" if r["ok"] else "  " + json.dumps({k: v for k, v in r.items() if k not in ("file", "ok", "kind")})[:600]))
        sys.stdout.flush()
    npass = sum(1 for r in results if r["ok"])
    print("selftest: %d/%d ok" % (npass, len(results)))
    if a.json:
        json.dump(results, open(a.json, "w"), indent=1)
    if a.mode == "one" and results and results[0].get("skipped"):
        sys.exit(3)
    if a.mode == "all" and not only and not a.name:
        # keep the per-case outcome of this full run (derived data, not committed): a thorough check on the
        # same tree may reuse it instead of re-running its share of the corpus (VERIF_REUSE_SELFTEST=1)
        sys.path.insert(0, HERE)
        from engine.facts import source_hash as _sh

        os.makedirs(os.path.join(HERE, ".cache"), exist_ok=True)
        json.dump({"source_hash": _sh(REPO), "at": __import__("time").strftime("%Y-%m-%dT%H:%M:%SZ", __import__("time").gmtime()),
                   "results": [{k: r.get(k) for k in ("file", "kind", "ok", "skipped", "known_miss")} for r in results]},
                  open(os.path.join(HERE, ".cache", "selftest_results.json"), "w"), indent=1)
    if a.mode == "all" and npass == len(results) and not only and not a.name:
        # the corpus was validated on exactly this tree: thorough runs on it are strict
        sys.path.insert(0, HERE)
        from engine.facts import source_hash

        json.dump({"source_hash": source_hash(REPO), "cases": len(results)}, open(os.path.join(HERE, "selftest", "validated_on.json"), "w"))
    sys.exit(0 if npass == len(results) else 1)


if __name__ == "__main__":
    main()
