#!/usr/bin/env python3
"""tools/dump.py <body path> : switches + calls with rendered expressions."""
import sys
sys.path.insert(0, __file__.rsplit('/',2)[0])
from engine import facts
from engine.rules import *
F = facts.load(verbose=False)
ctx = Ctx('x', F)
b = ctx.main_body(sys.argv[1]) if '--raw' not in sys.argv else ctx.fn(sys.argv[1])
print(b.path, 'captures=', b.captures, 'argc=', b.argc)
for x in exit_sites(b):
    print('EXIT', x['block'], x['kind'], x['loc'], fmt_expr(x['expr'])[:160])
for blk in sorted(b.reachable_from([0])):
    t = b.blocks[blk]['t']
    if t['k'] == 'switch':
        e = b.switch_discr_expr(blk)
        print('SW', blk, b.loc(blk), fmt_expr(e)[:220], b.out_edges(blk))
        if '-l' in sys.argv: print('     ', sorted(ctx.leaves(e)))
    elif t['k'] == 'call' and '-c' in sys.argv:
        print('CALL', blk, b.loc(blk), callee_of(t), '->', t.get('to'))
    elif t['k'] in ('yield','return','assert') and '-c' in sys.argv:
        print(t['k'].upper(), blk, b.loc(blk), t.get('msg',{}).get('ak',''))
