#!/usr/bin/env python3
"""Regenerates the generated part of DESIGN.md (between the BEGIN/END GENERATED markers):
the as-built clause, rule ids and validation corpus per property, read from rules/Cxx.py,
tools/claims.json, selftest/, seeded/ and the last evidence files."""
import glob
import importlib
import json
import os
import re
import sys

HERE = os.path.dirname(os.path.dirname(os.path.abspath(__file__)))
sys.path.insert(0, HERE)
BEGIN = "<!-- BEGIN GENERATED: as-built (tools/gen_design.py) -->"
END = "<!-- END GENERATED -->"


def short(s, n=200):
    s = " ".join(str(s).split())
    return s if len(s) <= n else s[: n - 1] + "…"


def main():
    props = [json.loads(l) for l in open(os.path.join(HERE, "properties.jsonl"))]
    claims = json.load(open(os.path.join(HERE, "tools", "claims.json")))
    mutants = {}
    for f in sorted(glob.glob(os.path.join(HERE, "selftest", "mutants", "*", "*.json"))):
        s = json.load(open(f))
        for p in s["props"]:
            mutants.setdefault(p, []).append((os.path.basename(f)[:-5], s))
    refactors = {}
    for f in sorted(glob.glob(os.path.join(HERE, "selftest", "refactors", "*.json"))):
        s = json.load(open(f))
        for p in s["props"]:
            refactors.setdefault(p, []).append((os.path.basename(f)[:-5], s))
    seeded = {}
    for d in sorted(glob.glob(os.path.join(HERE, "seeded", "*"))):
        sid = os.path.basename(d)
        try:
            meta = json.load(open(os.path.join(d, "meta.json")))
            chk = json.load(open(os.path.join(d, "check.json")))
        except Exception:
            continue
        conf = {}
        if os.path.exists(os.path.join(d, "confirm.json")):
            conf = json.load(open(os.path.join(d, "confirm.json")))
        for p in chk["props"]:
            seeded.setdefault(p, []).append((sid, meta, chk, conf))
    out = [BEGIN, ""]
    out.append("### 5b. As built — clause, rule instances and validation corpus per property")
    out.append("")
    out.append(
        "This part is generated from the rule modules and corpora (`python3 tools/gen_design.py`), so it cannot "
        "drift from what `./check` evaluates. *Rule ids* are the instance names that appear in violation reports; "
        "*catches* lists the scratch-copy variants (hand-written mutants `m:`, independently seeded regressions `s:`) "
        "that the thorough tier re-applies to the current tree and that must be reported with the listed rule id; "
        "*silent on* lists the behaviour-preserving refactors (`r:`) under which the verdict must not change."
    )
    out.append("")
    tot_m = tot_s = tot_r = 0
    for p in props:
        pid = p["id"]
        c = claims.get(pid, {})
        out.append("#### %s — %s" % (pid, p["title"]))
        if not c.get("claimed"):
            out.append("Not applicable: %s" % c.get("na_reason", ""))
            out.append("")
            continue
        mod = importlib.import_module("rules." + pid)
        src = open(os.path.join(HERE, "rules", pid + ".py")).read()
        ids = sorted(set(re.findall(r"[\"'](%s\.[A-Za-z0-9_.\-]+)[\"']" % pid, src)))
        ev = {}
        try:
            ev = json.load(open(os.path.join(HERE, "evidence", pid + ".json")))
        except Exception:
            pass
        cov = ev.get("coverage", {})
        out.append("* Engines: %s" % getattr(mod, "ENGINES", ""))
        out.append("* Decides: %s" % " ".join(getattr(mod, "CLAUSE", "").split()))
        out.append("* Not decided: %s" % " ".join(getattr(mod, "NOT_DECIDED", "").split()))
        a = getattr(mod, "ASSUMPTIONS", [])
        if a:
            out.append("* Assumptions: %s" % "; ".join(a))
        out.append("* Rule ids (%d): %s" % (len(ids), ", ".join("`%s`" % i for i in ids)))
        if cov:
            out.append(
                "* Last run on the pinned tree: %s obligations, %s discharged, %s known finding(s), %d function bodies analysed"
                % (cov.get("obligations"), cov.get("discharged"), cov.get("known_findings"), len(cov.get("functions_analysed", [])))
            )
        cat = []
        for sid, meta, chk, conf in seeded.get(pid, []):
            tot_s += 1
            cat.append(
                "  * s:`seeded/%s` (%s; %s) → %s"
                % (sid, short(meta.get("summary", ""), 160), "confirmed: demo fails with / passes without, existing tests pass" if conf.get("confirmed") else "confirmation: see seeded/%s" % sid,
                   ("**MISSED** - " + chk["known_miss"]) if chk.get("known_miss") else ", ".join("`%s`" % e for e in chk["expect"]))
            )
        for name, s in mutants.get(pid, []):
            tot_m += 1
            cat.append("  * m:`%s` (%s) → %s" % (name, short(s.get("why", ""), 120), ", ".join("`%s`" % e for e in s["expect"] if e.startswith(pid)) or ", ".join(s["expect"])))
        if cat:
            out.append("* Catches:")
            out += cat
        rf = refactors.get(pid, [])
        if rf:
            tot_r += len(rf)
            out.append("* Silent on: " + "; ".join("r:`%s` (%s)" % (n, short(s.get("why", ""), 90)) for n, s in rf))
        out.append("")
    out.append("Corpus size: %d seeded regressions, %d hand-written mutants, %d refactors (property × case pairs)." % (tot_s, tot_m, tot_r))
    out.append("")
    out.append(END)
    path = os.path.join(HERE, "DESIGN.md")
    doc = open(path).read()
    if BEGIN in doc:
        pre = doc[: doc.index(BEGIN)]
        post = doc[doc.index(END) + len(END) :]
        doc = pre + "\n".join(out) + post
    else:
        raise SystemExit("markers missing in DESIGN.md")
    open(path, "w").write(doc)
    print("DESIGN.md generated part: %d lines" % len(out))


if __name__ == "__main__":
    main()
