#!/usr/bin/env python3
import sys
sys.path.insert(0, __file__.rsplit('/',2)[0])
from engine import facts
F = facts.load(verbose=False)
for p in F.paths():
    if all(s in p for s in sys.argv[1:]):
        print(p)
