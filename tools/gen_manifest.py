#!/usr/bin/env python3
"""Regenerates MANIFEST.json from tools/claims.json (claimed properties with their level
texts) and the list of not-applicable / not-yet-claimed properties."""
import json
import os

HERE = os.path.dirname(os.path.dirname(os.path.abspath(__file__)))
claims = json.load(open(os.path.join(HERE, "tools", "claims.json")))
props = [json.loads(l) for l in open(os.path.join(HERE, "properties.jsonl"))]

import importlib
import sys

sys.path.insert(0, HERE)


def level_texts(pid, c):
    """The manifest wording is derived from the rule module itself so that it cannot drift."""
    mod = importlib.import_module("rules." + pid)
    clause = " ".join(getattr(mod, "CLAUSE", "").split())
    nd = " ".join(getattr(mod, "NOT_DECIDED", "").split())
    text = (
        "Structural clause decided on every run from /repo's compiled MIR (all CFG paths, not sampled inputs) - strength: %s. %s NOT decided: %s"
        % (c.get("strength", "partial"), clause, nd)
    )
    tables = ", tables/panic_audit.json" if "P (" in getattr(mod, "ENGINES", "") else ""
    note = "Trusted base: rustc MIR construction and callee resolution, the lumina-facts driver export, engine/*.py, the frozen rule table rules/%s.py%s." % (pid, tables)
    a = getattr(mod, "ASSUMPTIONS", [])
    if a:
        note += " Assumptions: " + "; ".join(a)
    return text, note, "static analysis over rustc MIR facts: " + getattr(mod, "ENGINES", "")


checks = []
na = []
for p in props:
    pid = p["id"]
    c = claims.get(pid)
    if c and c.get("claimed") and os.path.exists(os.path.join(HERE, "rules", pid + ".py")):
        c = dict(c)
        c["text"], c["note"], c["technique"] = level_texts(pid, c)
        checks.append(
            {
                "property_id": pid,
                "quick_cmd": "./check %s" % pid,
                "thorough_cmd": "./check %s --tier thorough" % pid,
                "evidence_file": "/verif/evidence/%s.json" % pid,
                "replay_cmd_template": "./check %s --replay {path}" % pid,
                "engine": "lumina-facts + rule engines",
                "level_claimed": {
                    "category": "other",
                    "text": c["text"],
                    "design_ref": "DESIGN.md §5 " + pid,
                },
                "level_note": c["note"],
                "technique": c["technique"],
            }
        )
    else:
        reason = (c or {}).get("na_reason") or "no structural clause decided yet by the static machinery (see DESIGN.md)"
        na.append({"property_id": pid, "reason": reason})

manifest = {
    "version": 1,
    "setup_cmd": "./setup.sh",
    "hooks": {
        "guard": "eigerco_lumina_verif",
        "enable": "none needed: static analysis reads the unmodified tree (no hooks are compiled in); RUSTFLAGS='--cfg eigerco_lumina_verif' is reserved",
        "baseline_off_cmd": "cd /repo && cargo nextest run --workspace --no-fail-fast --test-threads 8 --offline || cargo test --workspace --no-fail-fast --offline",
        "source_commits": [],
        "add_only": True,
    },
    "engines": [
        {
            "name": "lumina-facts",
            "path": "driver/",
            "serves_properties": [c["property_id"] for c in checks],
            "kind_free_text": "rustc_private driver (RUSTC_WORKSPACE_WRAPPER under cargo +nightly check) exporting pre-borrowck MIR, resolved callees, ADTs, consts of the workspace crates as JSON facts",
        },
        {
            "name": "rule engines",
            "path": "engine/ rules/",
            "serves_properties": [c["property_id"] for c in checks],
            "kind_free_text": "python3 static analyses over the facts: CFG reachability/dominance must-check (G), ordering (O), panic-site cone with discharge (P), who-may (W), sibling agreement (S), dependence slices (D), constants (K)",
        },
    ],
    "checks": checks,
    "not_applicable": na,
    "notes": "Technique family: static analysis only. Every check decides a named structural clause (a necessary condition) of its property from /repo's current source; the behavioural remainder is stated as not decided in DESIGN.md and in each evidence file. Known findings: /verif/known_findings.json (status `known` entries are printed as KNOWN-FINDING lines and keyed by the exact violation key; `fixed: <commit>` entries record repaired defects and suppress nothing). Independently seeded regressions with demonstrations: /verif/seeded/<id>/ (none of them is applied in /repo; `git -C /repo apply seeded/<id>/patch.diff` to try one). Exit codes of ./check: 0 holds, 1 violation, 2 tree cannot be analysed / checker self-validation failed, 4 internal checker error.",
}
json.dump(manifest, open(os.path.join(HERE, "MANIFEST.json"), "w"), indent=1)
print("claimed", len(checks), "not_applicable", len(na))
