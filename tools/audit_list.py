#!/usr/bin/env python3
"""tools/audit_list.py Cxx : compact list of the panic sites of a cone property that are not auto-discharged"""
import sys, importlib
sys.path.insert(0, __file__.rsplit('/',2)[0])
from engine import facts
from engine.rules import Ctx, short
from engine.cone import Cone
from engine.panics import enumerate_sites, auto_discharge, stable_key, load_audit
from rules.conelib import AUDIT
mod = importlib.import_module('rules.' + sys.argv[1])
F = facts.load(verbose=False)
ctx = Ctx('x', F)
cone = Cone(ctx, mod.ROOTS, stop=getattr(mod, 'STOP', ()))
audit = load_audit(AUDIT)
n = {}
for s in enumerate_sites(ctx, cone):
    if auto_discharge(s):
        continue
    k = stable_key(s)
    tag = "%s|%s" % (s.loc, s.kind)
    n[tag] = n.get(tag, 0) + 1
    st = audit.get(k, {}).get('status', 'UNAUDITED')
    if '-a' in sys.argv or st == 'UNAUDITED':
        print(tag + ('#%d' % n[tag] if n[tag] > 1 else ''), '|', st, '|', s.text[:70] if '-t' in sys.argv else '')
