#!/bin/bash
# tools/confirm_seeded.sh <out-dir with patch.diff demo.diff meta.json> <id>
# Confirms a seeded change in a scratch worktree of /repo (outside /repo and /verif):
#   demo passes without the patch, fails with it; existing tests of the touched crates pass
#   with the patch. Writes <out-dir>/confirm.json and removes the worktree + build output.
set -u
OUT="$1"; ID="$2"
WT=$(mktemp -d /tmp/confirm-${ID}-XXXX)
rmdir "$WT"
git -C /repo worktree add -q --detach "$WT" HEAD || exit 3
export CARGO_NET_OFFLINE=true CARGO_TARGET_DIR="$WT/target"
cd "$WT"
DEMO_CMD=$(python3 -c "import json;print(json.load(open('$OUT/meta.json'))['demo_cmd'])")
TEST_CMD=$(python3 -c "import json;print(json.load(open('$OUT/meta.json')).get('existing_tests_cmd',''))")
# strip any CARGO_TARGET_DIR=... prefixes / cd the agent wrote
DEMO_CMD=$(echo "$DEMO_CMD" | sed -E 's#CARGO_TARGET_DIR=[^ ]+ ##g; s#cd /tmp/wt_[A-Za-z0-9]+ *(&&|;) *##g')
TEST_CMD=$(echo "$TEST_CMD" | sed -E 's#CARGO_TARGET_DIR=[^ ]+ ##g; s#cd /tmp/wt_[A-Za-z0-9]+ *(&&|;) *##g')
echo "demo: $DEMO_CMD"; echo "tests: $TEST_CMD"
git apply "$OUT/demo.diff" || { echo "demo.diff does not apply"; R_APPLY=fail; }
bash -c "$DEMO_CMD" > "$OUT/confirm_demo_without.log" 2>&1; D0=$?
git apply "$OUT/patch.diff" || { echo "patch.diff does not apply"; }
bash -c "$DEMO_CMD" > "$OUT/confirm_demo_with.log" 2>&1; D1=$?
# existing tests with the patch but without the demo
git apply -R "$OUT/demo.diff"
T1=0
if [ -n "$TEST_CMD" ]; then
  bash -c "$TEST_CMD" > "$OUT/confirm_tests_with.log" 2>&1; T1=$?
fi
python3 - <<EOF
import json
json.dump({"id":"$ID","demo_without_patch_rc":$D0,"demo_with_patch_rc":$D1,"existing_tests_with_patch_rc":$T1,
 "confirmed": ($D0==0 and $D1!=0 and $T1==0), "demo_cmd": """$DEMO_CMD""", "tests_cmd": """$TEST_CMD"""}, open("$OUT/confirm.json","w"), indent=1)
print(open("$OUT/confirm.json").read())
EOF
cd /
git -C /repo worktree remove --force "$WT"
rm -rf "$WT"
